"""C07 -- tile filters never drop a tile holding data; filtered sampling leaves no holes (bounded tier).

The real filter factories -- ``samplers._latlon_tile_filter`` (lat/lon box), ``WcsSampler.filter``
(image footprint), ``ChunkedPlateCarreeSampler.filter`` (chunk) -- are evaluated on the real
``Tile`` objects of the TOAST descent; the oracle is written from the statement: a tile that has
at least one pixel centre inside the box / footprint / chunk must be accepted, together with all
its ancestors down from level 1, and the inspected tile must be left unchanged.  Pixel centres
come from ``rt.c06_geom`` (independent unit-vector construction of the TOAST grid); "inside a
footprint" is decided with this module's own gnomonic (TAN) projection, "inside a box / chunk" by
plain interval arithmetic on (lon mod 2pi, lat).  A centre only counts as inside when it is inside
by a margin (1e-9 rad for boxes and chunks, 1e-6 image pixels for footprints), so rounding on a
boundary can never produce a report.

End to end, ``sample_layer_filtered`` is run with the footprint filter + ``WcsSampler.sampler``,
and chunk by chunk with ``ChunkedPlateCarreeSampler`` (each in a fresh interpreter under a
watchdog); the tile files are read back with numpy/astropy/PIL and every pixel is compared with a
nearest-pixel lookup done here at the independent pixel centres (pixels within 1e-6 of an image
pixel / map cell boundary are skipped; a missing tile file counts as "all undefined").

Obligations and witness keys
----------------------------
* ``rt/latlon_filter/accepts``   box = ``lon_min, lon_max, lat_min, lat_max, width`` (rad), ``coordsys``,
  ``tile`` [n,x,y] (the rejected tile), ``leaf`` [n,x,y] (descendant-or-self having the centre),
  ``pixel`` [i,j], ``centre`` [lon,lat], ``family`` (how the box was generated).
* ``rt/wcs_filter/accepts``      ``naxis1, naxis2, min_axis, scale_deg, rot_rad, parity, crval, crpix, cd``,
  ``coordsys, tile, leaf, pixel, centre, image_pixel`` [x,y] (0-based position of the centre in the
  image), ``bounds`` (what ``_image_bounds`` returned), ``oversample`` (image pixel / tile pixel),
  ``family``.   On the pinned tree images with an axis <= 31 px land here (``min_axis <= 31``).
* ``rt/chunk_filter/accepts``    ``map_shape, chunk`` [cx,cy,cw,ch], ``ichunk``, + tile/leaf/pixel/centre.
* ``rt/<kind>_filter/tile_unchanged``  the filter modified ``tile.corners`` (+ ``tile``, before/after).
* ``rt/<kind>_filter/builds``    the factory or the filter call raised (+ ``error``).
* ``rt/wcs_filtered_sampling/equals_unfiltered``  e2e: ``tile, tile_missing (bool), n_bad, first_bad,
  observed, expected`` + image keys + ``depth, pio_format, parallel``.
* ``rt/chunked_sampling/equals_whole_map``        e2e: ``map_shape, grid, order, depth, coordsys, data_kind,
  pio_format, parallel, tile, tile_missing, n_bad, first_bad, observed, expected``.
* ``rt/filtered_sampling/runs`` / ``rt/filtered_sampling/terminates``  exception / watchdog in an e2e run.
* Entry points: every function that accepts a tile filter must honour the statement in both coordinate systems.  The e2e
  runs above call ``toast.sample_layer_filtered`` directly (``entry`` = direct, key absent from the witness).  The "entry"
  runs repeat them through ``Builder.toast_base(sampler, depth, tile_filter=...)`` with ``entry`` in
  ``builder`` (defaults = astronomical) | ``builder_is_planet`` (is_planet=True) | ``builder_coordsys`` (coordsys=...),
  one Builder object for all chunks of a map, and add plain lat/lon boxes (``samplers._latlon_tile_filter`` + a sampler
  that has data inside the box only), all four combinations {astronomical, planetary} x {Builder, direct}:
  ``rt/box_filtered_sampling/equals_unfiltered``  e2e: ``lon_min, lon_max, lat_min, lat_max, width, family, map_shape, coordsys,
  depth, pio_format, parallel, data_seed, [entry], tile, tile_missing, n_bad, first_bad, observed, expected``;
  ``rt/builder_box_filtered_sampling/equals_unfiltered``, ``rt/builder_wcs_filtered_sampling/equals_unfiltered``,
  ``rt/builder_chunked_sampling/equals_whole_map``: keys of the direct obligation + ``entry``;
  ``rt/builder_filtered_sampling/runs`` | ``terminates``.  A watchdog expiry of a group of entry runs (several runs share
  one interpreter) is reported as a note (undecided), not as a violation.

Bounds
------
quick   : 160 boxes (any origin in [-4pi,4pi] +- 6pi, widths 1e-4 .. 3pi, poles, seam, thin bands) against
          ALL 84 tiles of depths 1..3 (alternating system); 240 boxes seeded around a pixel centre
          (corner/edge/random pixel) of a random tile of depth 1..12 (path check); 45 TAN images
          (1..2000 px, 1e-4 .. 3 deg per pixel, any rotation, both parities, RA=0 / poles / random)
          x 10 probe points on the outer half-pixel ring and inside x 2 depths around the image
          scale (<= 13); images wider than 3 deg additionally against all tiles to depth 3; 500
          boundary-value images (axes from {1..1000} incl. 29..33) laid with one edge over an extreme
          pixel of a random tile (depth 2..13, image pixel = 0.5..8 tile pixels); 6 chunk grids (all
          tiles to depth 3 + 6 border probes per chunk to depth 9); e2e: 8 WCS images (footprint
          20..70 deg) at depth 2..3 in fits/npy with 1..3 workers, 5 chunked maps (rgb->png,
          f32->npy/fits, u8->npy) at depth 1..2 in random chunk order.
          entry points: 2 boxes (one across the wrap seam) x 4 combinations, 1 chunked map x 3 Builder variants,
          1 WCS image x 2 Builder variants (depth 1..2, 4 interpreters).
thorough: 900 + 2000 boxes (all tiles to depth 4, seeds to depth 15), 400 + 4000 images, 60 chunk
          grids, e2e 40 + 24; entry points: 12 boxes x 4, 8 maps x 3, 8 images x 2.
Not explored: 8-bit greyscale maps into a PNG pyramid (the PNG 'L' round trip breaks the second
update of a tile -- an image-mode issue outside this property's quantifier); non-TAN projections.

Trusted: astropy WCS only to *place probe points* and inside toasty; the oracle's projection is
this module's; numpy/astropy/PIL codecs for read-back.
"""
import math
import os
import time
from concurrent.futures import ThreadPoolExecutor

import numpy as np

from rt.common import call_isolated
from rt import c06_geom as G

MOD = "rt.c07"
TWOPI = 2 * np.pi
CAP = 5
EPS_BOX = 1e-9
EPS_PIX = 1e-6


# ================================================================================================
# independent geometry helpers

def centres(n, x, y, planetary):
    return G.vec_to_lonlat(G.tile_pixel_vectors(n, x, y, planetary))


def _quad_score(q, p):
    """>0 when unit vector p is inside the spherical quad q (2,2,3); larger = deeper inside."""
    c = [q[0, 0], q[0, 1], q[1, 1], q[1, 0]]
    cen = c[0] + c[1] + c[2] + c[3]
    best = None
    for i in range(4):
        nrm = np.cross(c[i], c[(i + 1) % 4])
        ln = np.linalg.norm(nrm)
        if ln < 1e-15:
            continue
        nrm = nrm / ln
        if nrm @ cen < 0:
            nrm = -nrm
        s = float(nrm @ p)
        best = s if best is None else min(best, s)
    return best


def locate(p, depth, planetary):
    """(x, y) of the depth-`depth` tile of the independent grid that contains unit vector p."""
    best = None
    for y in (0, 1):
        for x in (0, 1):
            q, rising = G.level1_quad(x, y, planetary)
            s = _quad_score(q, p)
            if best is None or s > best[0]:
                best = (s, x, y, q, rising)
    _, x, y, q, rising = best
    for _lev in range(2, depth + 1):
        bestc = None
        for dx, dy, cq in G.quad_children(q, rising):
            s = _quad_score(cq, p)
            if bestc is None or s > bestc[0]:
                bestc = (s, dx, dy, cq)
        _, dx, dy, q = bestc
        x, y = 2 * x + dx, 2 * y + dy
    return x, y


def in_box(lon, lat, box):
    lon_min, lon_max, lat_min, lat_max = box
    ok = (lat >= lat_min + EPS_BOX) & (lat <= lat_max - EPS_BOX)
    width = lon_max - lon_min
    if width < TWOPI:
        d = (lon - lon_min) % TWOPI
        ok &= (d >= EPS_BOX) & (d <= width - EPS_BOX)
    return ok


class Tan(object):
    """Own gnomonic projection (Calabretta & Greisen 2002, zenithal TAN, default LONPOLE)."""

    def __init__(self, crval, crpix, cd, n1, n2):
        self.crval = [float(crval[0]), float(crval[1])]
        self.crpix = [float(crpix[0]), float(crpix[1])]
        self.cd = [[float(cd[0][0]), float(cd[0][1])], [float(cd[1][0]), float(cd[1][1])]]
        self.n1, self.n2 = int(n1), int(n2)
        self.inv = np.linalg.inv(np.asarray(self.cd))

    def pix0(self, lon, lat):
        """0-based pixel coordinates of sky positions (radians) and a validity mask."""
        a0, d0 = math.radians(self.crval[0]), math.radians(self.crval[1])
        phip = math.pi if self.crval[1] < 90 else 0.0
        da = lon - a0
        phi = phip + np.arctan2(-np.cos(lat) * np.sin(da), np.sin(lat) * math.cos(d0) - np.cos(lat) * math.sin(d0) * np.cos(da))
        st = np.sin(lat) * math.sin(d0) + np.cos(lat) * math.cos(d0) * np.cos(da)
        valid = st > 1e-6
        ct = np.sqrt(np.maximum(0.0, 1 - st * st))
        R = np.degrees(ct / np.where(valid, st, 1.0))
        xx = R * np.sin(phi)
        yy = -R * np.cos(phi)
        px = self.crpix[0] + self.inv[0, 0] * xx + self.inv[0, 1] * yy - 1
        py = self.crpix[1] + self.inv[1, 0] * xx + self.inv[1, 1] * yy - 1
        return px, py, valid

    def inside(self, lon, lat):
        px, py, valid = self.pix0(lon, lat)
        return (valid & (px > -0.5 + EPS_PIX) & (px < self.n1 - 0.5 - EPS_PIX)
                & (py > -0.5 + EPS_PIX) & (py < self.n2 - 0.5 - EPS_PIX)), px, py

    def astropy(self):
        from astropy.wcs import WCS
        w = WCS(naxis=2)
        w.wcs.ctype = ["RA---TAN", "DEC--TAN"]
        w.wcs.crval = self.crval
        w.wcs.crpix = self.crpix
        w.wcs.cd = self.cd
        return w

    def keys(self):
        s = math.sqrt(abs(self.cd[0][0] * self.cd[1][1] - self.cd[0][1] * self.cd[1][0]))
        return {"naxis1": self.n1, "naxis2": self.n2, "min_axis": min(self.n1, self.n2), "scale_deg": s,
                "crval": self.crval, "crpix": self.crpix, "cd": self.cd}


def tile_pixel_deg(depth):
    """Rough angular size of one TOAST pixel at a depth (deg)."""
    return 90.0 / (2 ** max(depth - 1, 0)) / 256.0 / (2.0 if depth == 0 else 1.0)


# ================================================================================================
# checking machinery shared by the three kinds of filter (runs inside the isolated interpreter)

class Checker(object):
    def __init__(self, kind, filt, coordsys_name, base_witness):
        from toasty import toast
        from toasty.pyramid import Pos
        self.toast = toast
        self.Pos = Pos
        self.kind = kind
        self.filt = filt
        self.planetary = coordsys_name == "planetary"
        self.cs = toast.ToastCoordinateSystem.PLANETARY if self.planetary else toast.ToastCoordinateSystem.ASTRONOMICAL
        self.base = dict(base_witness)
        self.base["coordsys"] = coordsys_name
        self.problems = []
        self.calls = 0
        self._verdict = {}

    def verdict(self, n, x, y):
        """Real filter on the real Tile (cached); also checks that the tile is left unchanged."""
        key = (n, x, y)
        if key in self._verdict:
            return self._verdict[key]
        tile = self.toast.create_single_tile(self.Pos(n, x, y), self.cs)
        before = np.array(tile.corners, dtype=float).copy()
        pos_before = tuple(tile.pos)
        try:
            v = bool(self.filt(tile))
        except Exception as e:
            self.problems.append(("rt/%s_filter/builds" % self.kind, dict(self.base, tile=[n, x, y], error="%s: %s" % (type(e).__name__, e)),
                                  "filter raised on tile %s: %s" % ([n, x, y], e)))
            v = True
        self.calls += 1
        after = np.array(tile.corners, dtype=float)
        if not np.array_equal(before, after) or tuple(tile.pos) != pos_before:
            self.problems.append(("rt/%s_filter/tile_unchanged" % self.kind,
                                  dict(self.base, tile=[n, x, y], before=before.tolist(), after=after.tolist()),
                                  "filter modified the corners of tile %s" % ([n, x, y],)))
        self._verdict[key] = v
        return v

    def require_path(self, n, x, y, pixel, centre, extra):
        """Tile (n,x,y) has a pixel centre inside: it and every ancestor (level >= 1) must be accepted."""
        ok = True
        for lev in range(1, n + 1):
            ax, ay = x >> (n - lev), y >> (n - lev)
            if not self.verdict(lev, ax, ay):
                w = dict(self.base, tile=[lev, ax, ay], leaf=[n, x, y], pixel=[int(pixel[0]), int(pixel[1])],
                         centre=[float(centre[0]), float(centre[1])])
                w.update(extra)
                self.problems.append(("rt/%s_filter/accepts" % self.kind, w,
                                      "tile %s is rejected although pixel %s of tile %s (lon %.9f lat %.9f) lies inside"
                                      % ([lev, ax, ay], list(map(int, pixel)), [n, x, y], centre[0], centre[1])))
                ok = False
                break
        return ok


_CENTRE_CACHE = {}


def all_centres(depth, planetary):
    """[(n,x,y,lon,lat)] for every tile of levels 1..depth (cached per process)."""
    key = (depth, planetary)
    if key not in _CENTRE_CACHE:
        out = []
        for n in range(1, depth + 1):
            for y in range(2 ** n):
                for x in range(2 ** n):
                    lon, lat = centres(n, x, y, planetary)
                    out.append((n, x, y, lon, lat, float(lat.min()), float(lat.max())))
        _CENTRE_CACHE[key] = out
    return _CENTRE_CACHE[key]


def sweep(checker, depth, inside_fn, lat_range, extra):
    """Full enumeration: every tile of levels 1..depth with a centre inside must have its path accepted."""
    n_in = 0
    for (n, x, y, lon, lat, lmin, lmax) in all_centres(depth, checker.planetary):
        if lat_range is not None and (lmax < lat_range[0] or lmin > lat_range[1]):
            continue
        m = inside_fn(lon, lat)
        if m.any():
            n_in += 1
            i, j = np.argwhere(m)[0]
            checker.require_path(n, x, y, (i, j), (lon[i, j], lat[i, j]), extra)
    return n_in


# ================================================================================================
# part 1: lat/lon boxes

def gen_boxes(rng, n):
    out = []
    hp = math.pi / 2
    for i in range(n):
        fam = ["random", "tiny", "wide", "over2pi", "pole_n", "pole_s", "seam", "band", "exact2pi", "big_origin"][i % 10]
        lon_min = rng.uniform(-2 * TWOPI, 2 * TWOPI)
        la, lb = sorted([rng.uniform(-hp, hp), rng.uniform(-hp, hp)])
        if lb - la < 1e-6:
            lb = min(hp, la + 1e-3)
            la = lb - 1e-3
        width = rng.uniform(1e-3, math.pi)
        if fam == "tiny":
            width = 10 ** rng.uniform(-4, -2)
            c = rng.uniform(-hp + 0.01, hp - 0.01)
            la, lb = c - width / 2, c + width / 2
        elif fam == "wide":
            width = rng.uniform(math.pi, TWOPI - 1e-3)
        elif fam == "over2pi":
            width = rng.uniform(TWOPI, 1.5 * TWOPI)
        elif fam == "exact2pi":
            width = TWOPI
        elif fam == "pole_n":
            lb = hp
        elif fam == "pole_s":
            la = -hp
        elif fam == "seam":
            lon_min = rng.choice([0.0, -width / 2, TWOPI - width / 2, TWOPI - width, math.pi - width / 2, -math.pi])
        elif fam == "band":
            c = rng.uniform(-hp + 0.02, hp - 0.02)
            la, lb = c - 1e-3, c + 1e-3
            width = rng.uniform(0.5, TWOPI + 1)
        elif fam == "big_origin":
            lon_min = rng.uniform(-2 * TWOPI, 2 * TWOPI) + rng.choice([-3, 3]) * TWOPI
        out.append({"lon_min": lon_min, "lon_max": lon_min + width, "lat_min": la, "lat_max": lb, "width": width, "family": fam})
    return out


def part_boxes(seed, n_sweep, n_seeded, sweep_depth, max_depth, nproc):
    import random
    import multiprocessing as mp
    rng = random.Random(seed)
    jobs = []
    boxes = gen_boxes(rng, n_sweep)
    for i, b in enumerate(boxes):
        jobs.append(("sweep", b, "planetary" if i % 2 else "astronomical", sweep_depth, None))
    hp = math.pi / 2
    for i in range(n_seeded):
        d = rng.randint(1, max_depth)
        x, y = rng.randrange(2 ** d), rng.randrange(2 ** d)
        pix = rng.choice([(0, 0), (0, 255), (255, 0), (255, 255), (rng.randrange(256), rng.randrange(256)),
                          (rng.randrange(256), rng.randrange(256)), (0, rng.randrange(256)), (rng.randrange(256), 255)])
        jobs.append(("seeded", {"rel": [rng.random(), rng.random()], "w": 10 ** rng.uniform(-7, 0.7), "h": 10 ** rng.uniform(-7, 0),
                                "edge": rng.random() < 0.4, "shift": rng.choice([0, 0, -1, 1, 2]) * TWOPI, "family": "seeded"},
                     "planetary" if i % 2 else "astronomical", d, (x, y, pix)))
    for pl in (False, True):
        all_centres(sweep_depth, pl)              # computed once, inherited by the forked pool
    with mp.get_context("fork").Pool(nproc) as pool:
        res = pool.map(_box_job, jobs, chunksize=4)
    return _merge(res)


def _merge(res):
    out = {"problems": [], "cases": [], "calls": 0, "nontrivial": 0}
    for r in res:
        out["problems"].extend(r["problems"])
        out["cases"].extend([c, bool(r.get("nontrivial", 0))] for c in r["cases"])
        out["calls"] += r["calls"]
        out["nontrivial"] += r.get("nontrivial", 0)
    return out


def _box_job(job):
    import warnings
    warnings.simplefilter("ignore")
    from toasty import samplers
    mode, b, csname, depth, seedinfo = job
    planetary = csname == "planetary"
    hp = math.pi / 2
    if mode == "seeded":
        x, y, pix = seedinfo
        lon, lat = centres(depth, x, y, planetary)
        plon, plat = float(lon[pix]), float(lat[pix])
        w, h = min(b["w"], 3 * TWOPI), min(b["h"], math.pi)
        rx, ry = b["rel"]
        if b["edge"]:                       # centre just inside an edge of the box
            rx = [2e-9 / w, 1 - 2e-9 / w][int(rx < 0.5)] if w > 1e-8 else 0.5
        lon_min = plon - rx * w + b["shift"]
        la = plat - ry * h
        lb = la + h
        la, lb = max(la, -hp), min(lb, hp)
        b = dict(b, lon_min=lon_min, lon_max=lon_min + w, lat_min=la, lat_max=lb, width=w)
    box = (b["lon_min"], b["lon_max"], b["lat_min"], b["lat_max"])
    base = {k: b[k] for k in ("lon_min", "lon_max", "lat_min", "lat_max", "width", "family")}
    try:
        filt = samplers._latlon_tile_filter(*box)
    except Exception as e:
        return {"problems": [("rt/latlon_filter/builds", dict(base, coordsys=csname, error="%s: %s" % (type(e).__name__, e)),
                              "factory raised: %s" % e)], "cases": [["box", csname, mode, depth] + list(box)], "calls": 0}
    ck = Checker("latlon", filt, csname, base)
    if mode == "sweep":
        n_in = sweep(ck, depth, lambda lo, la_: in_box(lo, la_, box), (box[2], box[3]), {})
    else:
        m = in_box(lon, lat, box)
        n_in = int(m.any())
        if m.any():
            i, j = (pix if m[pix] else tuple(np.argwhere(m)[0]))
            ck.require_path(depth, x, y, (i, j), (lon[i, j], lat[i, j]), {})
    return {"problems": ck.problems, "cases": [["box", csname, mode, depth] + [round(v, 12) for v in box]], "calls": ck.calls,
            "nontrivial": int(n_in > 0)}


# ================================================================================================
# part 2: image footprints

def gen_image(rng, i):
    fam = ["small", "narrow", "medium", "large", "tiny", "pole", "seam", "degree", "narrow31", "edge32"][i % 10]
    n1 = n2 = None
    if fam == "small":
        n1, n2 = rng.randint(2, 31), rng.randint(2, 31)
    elif fam == "narrow":
        n1, n2 = rng.randint(1, 12), rng.randint(40, 1500)
        if rng.random() < 0.5:
            n1, n2 = n2, n1
    elif fam == "medium":
        n1, n2 = rng.randint(32, 400), rng.randint(32, 400)
    elif fam == "large":
        n1, n2 = rng.randint(400, 2000), rng.randint(400, 2000)
    elif fam == "tiny":
        n1, n2 = rng.randint(1, 3), rng.randint(1, 3)
    elif fam == "narrow31":
        n1, n2 = rng.choice([29, 30, 31]), rng.choice([31, 64, 200])
    elif fam == "edge32":
        n1, n2 = rng.choice([32, 33]), rng.choice([32, 33, 47])
    else:
        n1, n2 = rng.randint(8, 300), rng.randint(8, 300)
    ext_max = 100.0                                           # keep the footprint well inside one hemisphere
    scale = 10 ** rng.uniform(-4, 0.5)                        # deg / pixel
    if fam == "degree":
        scale = rng.uniform(0.3, 3.0)
    scale = min(scale, ext_max / max(n1, n2))
    rot = rng.choice([0.0, 0.3, rng.uniform(-math.pi, math.pi), math.pi / 2, rng.uniform(-math.pi, math.pi)])
    parity = rng.choice([1, -1])
    c, s = math.cos(rot), math.sin(rot)
    cd = [[-scale * c, scale * s * parity], [-scale * s, -scale * c * parity]]
    ra, dec = rng.uniform(0, 360), math.degrees(math.asin(rng.uniform(-1, 1)))
    if fam == "pole":
        dec = rng.choice([90.0, -90.0, 89.95, -89.9, 90 - scale * n2 / 3])
    if fam == "seam":
        ra = rng.choice([0.0, 359.99, 0.01, 180.0, 360 - scale * n1 / 3])
        dec = rng.uniform(-60, 60)
    crpix = [rng.uniform(0.5, n1 + 0.5), rng.uniform(0.5, n2 + 0.5)]
    if rng.random() < 0.3:
        crpix = [(n1 + 1) / 2.0, (n2 + 1) / 2.0]
    return {"n1": n1, "n2": n2, "crval": [ra, dec], "crpix": crpix, "cd": cd, "rot_rad": rot, "parity": parity, "family": fam}


def part_footprints(seed, n_images, max_depth, nproc, probes_per_image, n_aligned):
    import random
    import multiprocessing as mp
    rng = random.Random(seed)
    jobs = [("image", (gen_image(rng, i), "planetary" if i % 3 == 2 else "astronomical", rng.randrange(10 ** 9), max_depth,
                       probes_per_image)) for i in range(n_images)]
    jobs += [("aligned", gen_aligned(rng, i, max_depth)) for i in range(n_aligned)]
    for pl in (False, True):
        all_centres(3, pl)
    with mp.get_context("fork").Pool(nproc) as pool:
        res = pool.map(_fp_job, jobs, chunksize=2)
    return _merge(res)


def _fp_job(job):
    return _image_job(job[1]) if job[0] == "image" else _aligned_job(job[1])


def gen_aligned(rng, i, max_depth):
    """An image whose edge is laid just over an extreme pixel of a TOAST tile (boundary-value family):
    the tile then pokes into the outermost half pixel of the footprint and extends away from it."""
    sizes = [1, 2, 3, 5, 8, 10, 16, 20, 25, 29, 30, 31, 32, 33, 40, 63, 64, 100, 257, 1000]
    n1, n2 = rng.choice(sizes), rng.choice(sizes)
    if i % 3 == 0:
        n1 = n2 = rng.choice(sizes)
    d = rng.randint(2, max_depth)
    osf = rng.choice([0.5, 1, 1, 2, 2, 4, 4, 8])              # image pixel / tile pixel
    scale = tile_pixel_deg(d) * osf
    scale = min(scale, 80.0 / max(n1, n2))
    return {"n1": n1, "n2": n2, "scale": scale, "rot": rng.choice([0.0, 0.0, rng.uniform(-0.4, 0.4), math.pi / 2, math.pi]),
            "parity": rng.choice([1, -1]), "depth": d, "tile": [rng.randrange(2 ** d), rng.randrange(2 ** d)],
            "corner": rng.choice(["lat_min", "lat_max", "lon_min", "lon_max"]), "u": rng.uniform(0.02, 0.45), "along": rng.random(),
            "coordsys": "planetary" if i % 4 == 3 else "astronomical", "flip_edge": rng.random() < 0.15}


def _aligned_job(a):
    import warnings
    warnings.simplefilter("ignore")
    from toasty import samplers
    planetary = a["coordsys"] == "planetary"
    d = a["depth"]
    x, y = a["tile"]
    lon, lat = centres(d, x, y, planetary)
    lonu = np.unwrap(np.unwrap(lon, axis=0), axis=1) if (lon.max() - lon.min()) > math.pi else lon
    sel = {"lat_min": np.argmin(lat), "lat_max": np.argmax(lat), "lon_min": np.argmin(lonu), "lon_max": np.argmax(lonu)}[a["corner"]]
    i, j = np.unravel_index(sel, lat.shape)
    n1, n2, s, rot, par, u = a["n1"], a["n2"], a["scale"], a["rot"], a["parity"], a["u"]
    c, sn = math.cos(rot), math.sin(rot)
    cd = [[-s * c, s * sn * par], [-s * sn, -s * c * par]]
    # which image edge faces the tile (exact for rot = 0, approximate otherwise -- a mismatch only makes the case easy)
    fx, fy = a["along"] * (n1 - 1), a["along"] * (n2 - 1)
    north_is_low_y = (par == 1)
    if a["corner"] == "lat_min":          # tile extends to the north of this pixel -> put it on the image's north edge
        fy = -u if north_is_low_y else n2 - 1 + u
    elif a["corner"] == "lat_max":
        fy = n2 - 1 + u if north_is_low_y else -u
    elif a["corner"] == "lon_min":        # tile extends to larger RA (east); +x is west
        fx = -u
    else:
        fx = n1 - 1 + u
    if a["flip_edge"]:
        fx, fy = (n1 - 1) - fx, (n2 - 1) - fy
    crval = [math.degrees(float(lon[i, j])) % 360.0, math.degrees(float(lat[i, j]))]
    tan = Tan(crval, [fx + 1, fy + 1], cd, n1, n2)
    base = tan.keys()
    base.update({"rot_rad": rot, "parity": par, "family": "aligned:" + a["corner"]})
    case = ["aligned", a["coordsys"], n1, n2, d, x, y, a["corner"], round(s, 12), round(rot, 6), par, round(u, 6), round(a["along"], 6)]
    try:
        ws = samplers.WcsSampler(np.zeros((n2, n1), np.float32), tan.astropy())
        bounds = [float(v) for v in ws._image_bounds()]
        filt = ws.filter()
    except Exception as e:
        return {"problems": [("rt/wcs_filter/builds", dict(base, coordsys=a["coordsys"], error="%s: %s" % (type(e).__name__, e)),
                              "WcsSampler.filter() raised: %s" % e)], "cases": [case], "calls": 0}
    base["bounds"] = bounds
    ck = Checker("wcs", filt, a["coordsys"], base)
    m, px, py = tan.inside(lon, lat)
    n_in = 0
    if m.any():
        n_in = 1
        if not m[i, j]:
            i, j = np.argwhere(m)[0]
        ck.require_path(d, x, y, (i, j), (lon[i, j], lat[i, j]),
                        {"image_pixel": [float(px[i, j]), float(py[i, j])], "oversample": s / tile_pixel_deg(d)})
    return {"problems": ck.problems, "cases": [case], "calls": ck.calls, "nontrivial": n_in}


def _image_job(job):
    import random
    import warnings
    warnings.simplefilter("ignore")
    from toasty import samplers
    im, csname, seed, max_depth, nprobe = job
    rng = random.Random(seed)
    planetary = csname == "planetary"
    tan = Tan(im["crval"], im["crpix"], im["cd"], im["n1"], im["n2"])
    base = tan.keys()
    base.update({"rot_rad": im["rot_rad"], "parity": im["parity"], "family": im["family"]})
    case = ["image", csname, im["n1"], im["n2"], round(base["scale_deg"], 9), round(im["rot_rad"], 6), im["parity"],
            round(im["crval"][0], 6), round(im["crval"][1], 6)]
    w = tan.astropy()
    try:
        ws = samplers.WcsSampler(np.zeros((im["n2"], im["n1"]), np.float32), w)
        bounds = [float(v) for v in ws._image_bounds()]
        filt = ws.filter()
    except Exception as e:
        return {"problems": [("rt/wcs_filter/builds", dict(base, coordsys=csname, error="%s: %s" % (type(e).__name__, e)),
                              "WcsSampler.filter() raised: %s" % e)], "cases": [case], "calls": 0}
    base["bounds"] = bounds
    ck = Checker("wcs", filt, csname, base)
    n_in = 0
    scale = base["scale_deg"]
    # (a) degree-scale images: every tile of depths 1..3
    if scale * max(im["n1"], im["n2"]) > 3.0:
        def ins(lo, la):
            return tan.inside(lo, la)[0]
        # gnomonic: a point at tangent-plane radius R (deg) is atan(R) away from the reference point
        rmax = max(math.hypot(*(np.asarray(tan.cd) @ np.array([cx - tan.crpix[0], cy - tan.crpix[1]])))
                   for cx in (0.5, im["n1"] + 0.5) for cy in (0.5, im["n2"] + 0.5))
        r = math.atan(math.radians(rmax)) + 1e-6
        d0 = math.radians(im["crval"][1])
        n_in += sweep(ck, 3, ins, (d0 - r, d0 + r), {"oversample": scale / tile_pixel_deg(3), "image_pixel": None})
    # (b) probes: points of the footprint (outer half-pixel ring, corners, interior) at depths around the image scale
    n1, n2 = im["n1"], im["n2"]
    ring = []
    e = 0.45
    for (fx, fy) in [(-e, -e), (n1 - 1 + e, -e), (-e, n2 - 1 + e), (n1 - 1 + e, n2 - 1 + e)]:
        ring.append((fx, fy))
    for _ in range(max(nprobe - 6, 2)):
        side = rng.randrange(4)
        t = rng.random()
        if side == 0:
            ring.append((t * (n1 - 1), -rng.uniform(0.05, 0.49)))
        elif side == 1:
            ring.append((t * (n1 - 1), n2 - 1 + rng.uniform(0.05, 0.49)))
        elif side == 2:
            ring.append((-rng.uniform(0.05, 0.49), t * (n2 - 1)))
        else:
            ring.append((n1 - 1 + rng.uniform(0.05, 0.49), t * (n2 - 1)))
    ring.append((rng.uniform(0, n1 - 1), rng.uniform(0, n2 - 1)))
    ring.append(((n1 - 1) / 2.0, (n2 - 1) / 2.0))
    sky = w.wcs_pix2world(np.array(ring), 0)
    # depth at which a TOAST pixel is about as large as an image pixel
    d_match = 1
    while d_match < max_depth and tile_pixel_deg(d_match) > scale:
        d_match += 1
    # do not let the image span more than ~6 tiles (cost) nor exceed max_depth
    ext = scale * max(n1, n2)
    d_cap = 1
    while d_cap < max_depth and 256 * tile_pixel_deg(d_cap + 1) > ext / 6.0:
        d_cap += 1
    for (fx, fy), (ra, dec) in zip(ring, sky):
        if not (np.isfinite(ra) and np.isfinite(dec)):
            continue
        p = G.lonlat_to_vec(math.radians(ra), math.radians(dec))
        depths = set()
        depths.add(max(1, min(d_cap, d_match + rng.choice([-1, 0, 1, 2]))))
        depths.add(max(1, min(d_cap, rng.randint(1, max(1, d_match + 2)))))
        for d in sorted(depths):
            x, y = locate(p, d, planetary)
            lon, lat = centres(d, x, y, planetary)
            m, px, py = tan.inside(lon, lat)
            if not m.any():
                continue
            n_in += 1
            # prefer the inside centre closest to the probe (that is where slivers are)
            dist = np.where(m, (px - fx) ** 2 + (py - fy) ** 2, np.inf)
            i, j = np.unravel_index(np.argmin(dist), dist.shape)
            ck.require_path(d, x, y, (i, j), (lon[i, j], lat[i, j]),
                            {"image_pixel": [float(px[i, j]), float(py[i, j])], "oversample": scale / tile_pixel_deg(d)})
    return {"problems": ck.problems, "cases": [case], "calls": ck.calls, "nontrivial": int(n_in > 0)}


# ================================================================================================
# part 3: chunked plate-carree maps

class FakeChunked(object):
    """Stand-in for toasty.jpeg2000.ChunkedJPEG2000Reader (same interface), arbitrary cuts."""

    def __init__(self, data, ycuts, xcuts):
        self.data = data
        self.ycuts = ycuts
        self.xcuts = xcuts
        self.specs = []
        for r in range(len(ycuts) - 1):
            for c in range(len(xcuts) - 1):
                self.specs.append((xcuts[c], ycuts[r], xcuts[c + 1] - xcuts[c], ycuts[r + 1] - ycuts[r]))

    @property
    def shape(self):
        return self.data.shape

    @property
    def n_chunks(self):
        return len(self.specs)

    def chunk_spec(self, i):
        return self.specs[i]

    def chunk_data(self, i):
        x, y, w, h = self.specs[i]
        return self.data[y:y + h, x:x + w]


def gen_map(rng, i):
    H = rng.choice([1, 2, 7, 90, 97, 180, 256, 300])
    W = rng.choice([1, 2, 13, 180, 211, 360, 512])
    rows = rng.randint(1, min(4, H))
    cols = rng.randint(1, min(5, W))
    ycuts = [0] + sorted(rng.sample(range(1, H), rows - 1)) + [H] if rows > 1 else [0, H]
    xcuts = [0] + sorted(rng.sample(range(1, W), cols - 1)) + [W] if cols > 1 else [0, W]
    return {"H": H, "W": W, "ycuts": ycuts, "xcuts": xcuts, "data_seed": rng.randrange(10 ** 6)}


def chunk_box(H, W, spec):
    cx, cy, cw, ch = spec
    sx, sy = TWOPI / W, math.pi / H
    return (-math.pi + sx * cx, -math.pi + sx * (cx + cw), math.pi / 2 - sy * (cy + ch), math.pi / 2 - sy * cy)


def part_chunks(seed, n_maps, max_depth, nproc):
    import random
    import multiprocessing as mp
    rng = random.Random(seed)
    jobs = [(gen_map(rng, i), "planetary" if i % 3 else "astronomical", rng.randrange(10 ** 9), max_depth) for i in range(n_maps)]
    for pl in (False, True):
        all_centres(3, pl)
    with mp.get_context("fork").Pool(nproc) as pool:
        res = pool.map(_chunk_job, jobs, chunksize=1)
    return _merge(res)


def _chunk_job(job):
    import random
    import warnings
    warnings.simplefilter("ignore")
    from toasty import samplers
    mp_, csname, seed, max_depth = job
    rng = random.Random(seed)
    planetary = csname == "planetary"
    H, W = mp_["H"], mp_["W"]
    data = np.zeros((H, W), np.uint8)
    fc = FakeChunked(data, mp_["ycuts"], mp_["xcuts"])
    cs = samplers.ChunkedPlateCarreeSampler(fc, planetary=True)
    problems, calls, n_in = [], 0, 0
    for ic in range(fc.n_chunks):
        spec = fc.chunk_spec(ic)
        box = chunk_box(H, W, spec)
        base = {"map_shape": [H, W], "chunk": list(spec), "ichunk": ic, "family": "chunk"}
        try:
            filt = cs.filter(ic)
        except Exception as e:
            problems.append(("rt/chunk_filter/builds", dict(base, coordsys=csname, error="%s: %s" % (type(e).__name__, e)),
                             "ChunkedPlateCarreeSampler.filter raised: %s" % e))
            continue
        ck = Checker("chunk", filt, csname, base)
        n_in += sweep(ck, 3, lambda lo, la: in_box(lo, la, box), (box[2], box[3]), {})
        # seeded probes along the chunk border, deeper
        for _ in range(6):
            d = rng.randint(4, max_depth)
            lonp = rng.choice([box[0] + 1e-7, box[1] - 1e-7, rng.uniform(box[0], box[1])])
            latp = rng.choice([box[2] + 1e-7, box[3] - 1e-7, rng.uniform(box[2], box[3])])
            p = G.lonlat_to_vec(lonp, latp)
            x, y = locate(p, d, planetary)
            lon, lat = centres(d, x, y, planetary)
            m = in_box(lon, lat, box)
            if m.any():
                n_in += 1
                i, j = np.argwhere(m)[0]
                ck.require_path(d, x, y, (i, j), (lon[i, j], lat[i, j]), {})
        problems.extend(ck.problems)
        calls += ck.calls
    return {"problems": problems, "cases": [["chunks", csname, H, W, mp_["ycuts"], mp_["xcuts"]]], "calls": calls,
            "nontrivial": int(n_in > 0)}


# ================================================================================================
# part 4: end-to-end sampling (isolated; may fork toasty workers)

def tile_relpath(n, x, y, ext):
    return os.path.join(str(n), str(y), "%d_%d.%s" % (y, x, ext))


def read_display(path, ext):
    if ext == "npy":
        return np.load(path)
    if ext == "fits":
        from astropy.io import fits
        with fits.open(path) as h:
            return np.array(h[0].data)[::-1]
    from PIL import Image as PILImage
    with PILImage.open(path) as im_:
        im_.load()
        return np.asarray(im_)


def _sample_filtered(cfg, state, pio, filt, sampler, depth, cs, parallel):
    """The call under test: ``toast.sample_layer_filtered`` itself (entry 'direct') or ``Builder.toast_base`` with a
    ``tile_filter`` -- one Builder per pyramid (kept in ``state``), as a user driving several chunks would."""
    from toasty import toast
    entry = cfg.get("entry") or "direct"
    if entry == "direct":
        toast.sample_layer_filtered(pio, filt, sampler, depth, coordsys=cs, parallel=parallel)
        return
    from toasty.builder import Builder
    b = state.get("builder")
    if b is None:
        b = state["builder"] = Builder(pio)
    if entry == "builder_is_planet":
        if cfg["coordsys"] != "planetary":
            raise ValueError("entry builder_is_planet is the planetary system")
        b.toast_base(sampler, depth, is_planet=True, tile_filter=filt, parallel=parallel)
    elif entry == "builder_coordsys":
        b.toast_base(sampler, depth, coordsys=cs, tile_filter=filt, parallel=parallel)
    elif entry == "builder":
        if cfg["coordsys"] != "astronomical":
            raise ValueError("entry builder (defaults) is the astronomical system")
        b.toast_base(sampler, depth, tile_filter=filt, parallel=parallel)
    else:
        raise ValueError(entry)


def make_box_sampler(data, box):
    """sampler(lon, lat) -> float32: the plate-carree map ``data`` (lon -pi at the left edge, lat +pi/2 at the top) inside
    the lat/lon box, undefined (NaN) outside -- a data set that only exists in the box."""
    H, W = data.shape
    sx, sy = TWOPI / W, math.pi / H
    lon_min, lon_max, lat_min, lat_max = box
    width = lon_max - lon_min

    def sampler(lon, lat):
        lon = np.asarray(lon, dtype=np.float64)
        lat = np.asarray(lat, dtype=np.float64)
        ix = np.clip(np.floor(((lon + math.pi) % TWOPI) / sx).astype(int), 0, W - 1)
        iy = np.clip(np.floor((math.pi / 2 - lat) / sy).astype(int), 0, H - 1)
        out = data[iy, ix].astype(np.float32)
        ok = (lat >= lat_min) & (lat <= lat_max)
        if width < TWOPI:
            ok &= ((lon - lon_min) % TWOPI) <= width
        out[~ok] = np.nan
        return out

    return sampler


def e2e_box(cfg):
    """Filtered sampling with a plain lat/lon box filter against unfiltered sampling of the same data set (oracle: own
    pixel centres, interval arithmetic; pixels within 2e-9 rad of the box boundary or 1e-6 cells of a cell boundary skipped)."""
    import traceback
    import warnings
    warnings.simplefilter("ignore")
    from toasty import toast, samplers
    from toasty.pyramid import PyramidIO
    bx = cfg["box"]
    box = (bx["lon_min"], bx["lon_max"], bx["lat_min"], bx["lat_max"])
    H, W = cfg["map_shape"]
    planetary = cfg["coordsys"] == "planetary"
    cs = toast.ToastCoordinateSystem.PLANETARY if planetary else toast.ToastCoordinateSystem.ASTRONOMICAL
    rng = np.random.default_rng(cfg["data_seed"])
    data = (rng.random((H, W)) * 100 + 1).astype(np.float32)
    pio = PyramidIO(cfg["workdir"], default_format=cfg["pio_format"])
    depth = cfg["depth"]
    try:
        _sample_filtered(cfg, {}, pio, samplers._latlon_tile_filter(*box), make_box_sampler(data, box), depth, cs, cfg["parallel"])
    except BaseException as e:
        return {"problems": [{"obligation": "rt/filtered_sampling/runs", "error": "%s: %s" % (type(e).__name__, e),
                              "where": traceback.format_exc().strip().splitlines()[-3:]}], "tiles": 0}
    problems = []
    ext = cfg["pio_format"]
    sx, sy = TWOPI / W, math.pi / H
    width = box[1] - box[0]
    n_tiles = n_data = 0
    for y in range(2 ** depth):
        for x in range(2 ** depth):
            lon, lat = centres(depth, x, y, planetary)
            ins = in_box(lon, lat, box)
            amb = (np.abs(lat - box[2]) < 2 * EPS_BOX) | (np.abs(lat - box[3]) < 2 * EPS_BOX)
            if width < TWOPI:
                d = (lon - box[0]) % TWOPI
                amb |= (d < 2 * EPS_BOX) | (np.abs(d - width) < 2 * EPS_BOX) | (d > TWOPI - 2 * EPS_BOX)
            fx = ((lon + math.pi) % TWOPI) / sx
            fy = (math.pi / 2 - lat) / sy
            amb |= (np.abs(fx - np.round(fx)) < 1e-6) | (np.abs(fy - np.round(fy)) < 1e-6)
            ix = np.clip(np.floor(fx).astype(int), 0, W - 1)
            iy = np.clip(np.floor(fy).astype(int), 0, H - 1)
            exp = np.full((256, 256), np.nan, np.float32)
            exp[ins] = data[iy[ins], ix[ins]]
            p = os.path.join(cfg["workdir"], tile_relpath(depth, x, y, ext))
            missing = not os.path.exists(p)
            obs = np.full((256, 256), np.nan, np.float32) if missing else read_display(p, ext)
            n_tiles += 1
            n_data += int(ins.any())
            same = (obs == exp) | (np.isnan(obs) & np.isnan(exp)) | amb
            if not same.all():
                i, j = np.argwhere(~same)[0]
                problems.append({"obligation": "rt/box_filtered_sampling/equals_unfiltered", "tile": [depth, x, y], "tile_missing": missing,
                                 "n_bad": int((~same).sum()), "first_bad": [int(i), int(j)], "observed": float(obs[i, j]),
                                 "expected": float(exp[i, j])})
    return {"problems": problems, "tiles": n_tiles, "tiles_with_data": n_data}


_E2E = {"wcs": "e2e_wcs", "chunks": "e2e_chunks", "box": "e2e_box"}


def e2e_group(cfg):
    """Several e2e runs in one interpreter: cfg = {"kind", "base": cfg without entry/coordsys, "combos": [[entry, coordsys]...],
    "workdir"}.  -> {"runs": [result per combo]}"""
    fn = globals()[_E2E[cfg["kind"]]]
    runs = []
    for k, (entry, coordsys) in enumerate(cfg["combos"]):
        c = dict(cfg["base"], entry=entry, coordsys=coordsys, workdir=os.path.join(cfg["workdir"], "c%d" % k))
        runs.append(fn(c))
    return {"runs": runs}


def e2e_wcs(cfg):
    import traceback
    import warnings
    warnings.simplefilter("ignore")
    from toasty import toast, samplers
    from toasty.pyramid import PyramidIO
    im = cfg["image"]
    planetary = cfg["coordsys"] == "planetary"
    cs = toast.ToastCoordinateSystem.PLANETARY if planetary else toast.ToastCoordinateSystem.ASTRONOMICAL
    tan = Tan(im["crval"], im["crpix"], im["cd"], im["n1"], im["n2"])
    rng = np.random.default_rng(cfg["data_seed"])
    data = (rng.random((im["n2"], im["n1"])) * 100 + 1).astype(np.float32)
    ws = samplers.WcsSampler(data, tan.astropy())
    pio = PyramidIO(cfg["workdir"], default_format=cfg["pio_format"])
    depth = cfg["depth"]
    try:
        _sample_filtered(cfg, {}, pio, ws.filter(), ws.sampler(), depth, cs, cfg["parallel"])
    except BaseException as e:
        return {"problems": [{"obligation": "rt/filtered_sampling/runs", "error": "%s: %s" % (type(e).__name__, e),
                              "where": traceback.format_exc().strip().splitlines()[-3:]}], "tiles": 0}
    problems = []
    ext = cfg["pio_format"]
    n_tiles = n_data = 0
    for y in range(2 ** depth):
        for x in range(2 ** depth):
            lon, lat = centres(depth, x, y, planetary)
            px, py, valid = tan.pix0(lon, lat)
            ix = np.floor(px + 0.5)
            iy = np.floor(py + 0.5)
            amb = (np.abs(px + 0.5 - np.round(px + 0.5)) < EPS_PIX) | (np.abs(py + 0.5 - np.round(py + 0.5)) < EPS_PIX)
            ins = valid & (ix >= 0) & (ix < im["n1"]) & (iy >= 0) & (iy < im["n2"])
            exp = np.full((256, 256), np.nan, np.float32)
            exp[ins] = data[iy[ins].astype(int), ix[ins].astype(int)]
            p = os.path.join(cfg["workdir"], tile_relpath(depth, x, y, ext))
            missing = not os.path.exists(p)
            obs = np.full((256, 256), np.nan, np.float32) if missing else read_display(p, ext)
            n_tiles += 1
            n_data += int(ins.any())
            same = (obs == exp) | (np.isnan(obs) & np.isnan(exp)) | amb | ~valid
            if not same.all():
                i, j = np.argwhere(~same)[0]
                problems.append({"obligation": "rt/wcs_filtered_sampling/equals_unfiltered", "tile": [depth, x, y], "tile_missing": missing,
                                 "n_bad": int((~same).sum()), "first_bad": [int(i), int(j)], "observed": float(obs[i, j]),
                                 "expected": float(exp[i, j])})
    return {"problems": problems, "tiles": n_tiles, "tiles_with_data": n_data}


def e2e_chunks(cfg):
    import traceback
    import warnings
    warnings.simplefilter("ignore")
    from toasty import toast, samplers
    from toasty.pyramid import PyramidIO
    mp_ = cfg["map"]
    H, W = mp_["H"], mp_["W"]
    planetary = cfg["coordsys"] == "planetary"
    cs = toast.ToastCoordinateSystem.PLANETARY if planetary else toast.ToastCoordinateSystem.ASTRONOMICAL
    rng = np.random.default_rng(mp_["data_seed"])
    kind = cfg["data_kind"]
    if kind == "rgb":
        data = rng.integers(1, 256, (H, W, 3)).astype(np.uint8)
    elif kind == "f32":
        data = (rng.random((H, W)) * 100 + 1).astype(np.float32)
    else:
        data = rng.integers(1, 256, (H, W)).astype(np.uint8)
    fc = FakeChunked(data, mp_["ycuts"], mp_["xcuts"])
    sampler = samplers.ChunkedPlateCarreeSampler(fc, planetary=True)
    pio = PyramidIO(cfg["workdir"], default_format=cfg["pio_format"])
    depth = cfg["depth"]
    state = {}
    for k, ic in enumerate(cfg["order"]):
        try:
            _sample_filtered(cfg, state, pio, sampler.filter(ic), sampler.sampler(ic), depth, cs,
                             cfg["parallel"][k % len(cfg["parallel"])])
        except BaseException as e:
            return {"problems": [{"obligation": "rt/filtered_sampling/runs", "ichunk": ic, "error": "%s: %s" % (type(e).__name__, e),
                                  "where": traceback.format_exc().strip().splitlines()[-3:]}], "tiles": 0}
    problems = []
    ext = cfg["pio_format"]
    sx, sy = TWOPI / W, math.pi / H
    n_tiles = 0
    for y in range(2 ** depth):
        for x in range(2 ** depth):
            lon, lat = centres(depth, x, y, planetary)
            lonw = (lon + math.pi) % TWOPI                     # 0 at the left edge of the map
            fx = lonw / sx
            fy = (math.pi / 2 - lat) / sy
            amb = (np.abs(fx - np.round(fx)) < 1e-6) | (np.abs(fy - np.round(fy)) < 1e-6)
            ix = np.clip(np.floor(fx).astype(int), 0, W - 1)
            iy = np.clip(np.floor(fy).astype(int), 0, H - 1)
            exp = data[iy, ix]
            p = os.path.join(cfg["workdir"], tile_relpath(depth, x, y, ext))
            missing = not os.path.exists(p)
            n_tiles += 1
            if missing:
                bad = ~amb
                obs = None
            else:
                obs = read_display(p, ext)
                if kind == "rgb":
                    if obs.ndim != 3 or obs.shape[2] < 4:
                        bad = np.ones((256, 256), bool)
                    else:
                        bad = ((obs[..., :3] != exp).any(axis=-1) | (obs[..., 3] != 255)) & ~amb
                elif kind == "f32":
                    bad = ~((obs == exp) | amb)
                else:
                    bad = (obs != exp) & ~amb
            if bad.any():
                i, j = np.argwhere(bad)[0]
                problems.append({"obligation": "rt/chunked_sampling/equals_whole_map", "tile": [depth, x, y], "tile_missing": missing,
                                 "n_bad": int(bad.sum()), "first_bad": [int(i), int(j)],
                                 "observed": None if obs is None else np.asarray(obs[i, j]).tolist(),
                                 "expected": np.asarray(exp[i, j]).tolist()})
    return {"problems": problems, "tiles": n_tiles}


def gen_e2e(rng, thorough):
    out = []
    n_w = 8 if not thorough else 40
    for i in range(n_w):
        fam = ["small", "degree", "narrow31", "seam", "pole", "degree", "narrow", "degree"][i % 8]
        depth = [2, 3, 2, 2][i % 4] if not thorough else rng.choice([1, 2, 3, 3])
        n1, n2 = rng.randint(8, 90), rng.randint(8, 90)
        if fam == "small":
            n1, n2 = rng.randint(3, 31), rng.randint(3, 31)
        if fam == "narrow31":
            n1, n2 = rng.choice([30, 31]), rng.randint(20, 60)
        if fam == "narrow":
            n1, n2 = rng.randint(1, 6), rng.randint(30, 90)
        # footprint of 20..70 degrees so that it covers several tiles at depth 2..3
        ext = rng.uniform(20, 70)
        scale = ext / max(n1, n2)
        rot = rng.uniform(-math.pi, math.pi) if i % 2 else 0.0
        parity = rng.choice([1, -1])
        c, s = math.cos(rot), math.sin(rot)
        cd = [[-scale * c, scale * s * parity], [-scale * s, -scale * c * parity]]
        ra, dec = rng.uniform(0, 360), rng.uniform(-70, 70)
        if fam == "seam":
            ra = rng.choice([0.0, 359.0, 2.0])
        if fam == "pole":
            dec = rng.choice([90.0, -88.0, 85.0])
        im = {"n1": n1, "n2": n2, "crval": [ra, dec], "crpix": [rng.uniform(0.5, n1 + 0.5), rng.uniform(0.5, n2 + 0.5)], "cd": cd,
              "rot_rad": rot, "parity": parity, "family": fam}
        out.append(("wcs", {"image": im, "coordsys": "planetary" if i % 4 == 3 else "astronomical", "depth": depth,
                            "pio_format": "fits" if i % 2 else "npy", "parallel": [1, 2, 1, 3][i % 4], "data_seed": rng.randrange(10 ** 6)}))
    n_c = 5 if not thorough else 24
    for i in range(n_c):
        m = gen_map(rng, i)
        if m["H"] * m["W"] < 4:
            m = gen_map(rng, i + 3)
        kind = ["rgb", "f32", "u8", "f32", "rgb"][i % 5]
        nchunks = (len(m["ycuts"]) - 1) * (len(m["xcuts"]) - 1)
        order = list(range(nchunks))
        rng.shuffle(order)
        out.append(("chunks", {"map": m, "coordsys": "planetary" if i % 3 else "astronomical", "depth": 1 + (i % 2),
                               "data_kind": kind, "pio_format": {"rgb": "png", "f32": ["npy", "fits"][i % 2], "u8": "npy"}[kind],
                               "parallel": [1, 2] if i % 2 else [1], "order": order, "grid": [m["ycuts"], m["xcuts"]]}))
    return out


def gen_entry_groups(seed, thorough):
    """Entry-point groups (own generator: the older case streams stay as they were).
    -> [(kind, base cfg, [[entry, coordsys]...])]"""
    import random
    rng = random.Random("c07/entry/%s" % seed)
    four = [["builder_is_planet", "planetary"], ["direct", "planetary"], ["builder", "astronomical"], ["direct", "astronomical"]]
    four_b = [["builder_coordsys", "planetary"], ["direct", "planetary"], ["builder_coordsys", "astronomical"], ["direct", "astronomical"]]
    out = []
    n_box, n_chunk, n_wcs = (12, 8, 8) if thorough else (2, 1, 1)
    boxes = [b for b in gen_boxes(rng, 40) if b["family"] in ("random", "wide", "pole_n", "pole_s", "seam", "big_origin") and
             b["lat_max"] - b["lat_min"] > 0.2]
    for i in range(n_box):
        if i == 0:
            bx = {"lon_min": -0.9, "lon_max": 0.7, "lat_min": -0.5, "lat_max": 0.85, "width": 1.6, "family": "seam"}    # across lon = 0
        elif i == 2:
            bx = {"lon_min": math.pi - 0.6, "lon_max": math.pi + 0.8, "lat_min": -1.2, "lat_max": 0.1, "width": 1.4, "family": "seam"}
        else:
            bx = boxes[i % len(boxes)]
        out.append(("box", {"box": bx, "map_shape": [rng.choice([45, 90, 97]), rng.choice([90, 180, 211])], "depth": 2 if (i % 3 or not thorough) else 3,
                            "pio_format": "npy" if i % 2 == 0 else "fits", "parallel": [1, 2, 1, 3][i % 4], "data_seed": rng.randrange(10 ** 6)},
                    four if i % 2 == 0 else four_b))
    for i in range(n_chunk):
        m = gen_map(rng, i)
        while m["H"] * m["W"] < 400 or (len(m["ycuts"]) - 1) * (len(m["xcuts"]) - 1) < 2:
            m = gen_map(rng, i)
        nchunks = (len(m["ycuts"]) - 1) * (len(m["xcuts"]) - 1)
        order = list(range(nchunks))
        rng.shuffle(order)
        kind = ["f32", "rgb", "u8"][i % 3]
        out.append(("chunks", {"map": m, "depth": 1 + (i % 2), "data_kind": kind, "pio_format": {"rgb": "png", "f32": ["npy", "fits"][i % 2], "u8": "npy"}[kind],
                               "parallel": [1, 2] if i % 2 else [1], "order": order, "grid": [m["ycuts"], m["xcuts"]]},
                    [["builder_is_planet", "planetary"], ["builder_coordsys", "planetary"], ["builder", "astronomical"]]))
    wcs = [cfg for kind, cfg in gen_e2e(rng, True) if kind == "wcs" and cfg["image"]["family"] in ("degree", "seam")]
    for i in range(n_wcs):
        cfg = dict(wcs[i % len(wcs)])
        cfg.pop("coordsys")
        cfg["depth"] = min(cfg["depth"], 2)
        out.append(("wcs", cfg, [["builder_is_planet", "planetary"], ["builder", "astronomical"]] if i % 2 == 0 else
                    [["builder_coordsys", "planetary"], ["builder_coordsys", "astronomical"]]))
    return out


def _box_witness(cfg):
    w = dict(cfg["box"])
    w.update({"map_shape": cfg["map_shape"], "coordsys": cfg["coordsys"], "depth": cfg["depth"], "pio_format": cfg["pio_format"],
              "parallel": cfg["parallel"], "data_seed": cfg["data_seed"]})
    return w


def _base_witness(kind, cfg):
    w = {"wcs": _image_witness, "chunks": _chunk_witness, "box": _box_witness}[kind](cfg)
    if (cfg.get("entry") or "direct") != "direct":
        w["entry"] = cfg["entry"]
    return w


# ================================================================================================
# driver

def _report(ctx, per, obl, witness, msg):
    # the cap is per (obligation, family) so that a frequent family cannot hide a different one
    fam = (obl, "small_axis" if witness.get("min_axis", 10 ** 9) <= 31 else "", witness.get("family", "").split(":")[0])
    per[obl] = per.get(obl, 0) + 1
    n = per.get(fam, 0)
    per[fam] = n + 1
    if n < CAP and per.get(("total", obl), 0) < 3 * CAP:
        per[("total", obl)] = per.get(("total", obl), 0) + 1
        ctx.violation(obl, witness, msg)


def _image_witness(cfg):
    im = cfg["image"]
    t = Tan(im["crval"], im["crpix"], im["cd"], im["n1"], im["n2"])
    w = t.keys()
    w.update({"rot_rad": im["rot_rad"], "parity": im["parity"], "family": im["family"], "coordsys": cfg["coordsys"], "depth": cfg["depth"],
              "pio_format": cfg["pio_format"], "parallel": cfg["parallel"], "data_seed": cfg["data_seed"]})
    return w


def _chunk_witness(cfg):
    m = cfg["map"]
    return {"map_shape": [m["H"], m["W"]], "grid": cfg["grid"], "order": cfg["order"], "depth": cfg["depth"], "coordsys": cfg["coordsys"],
            "data_kind": cfg["data_kind"], "pio_format": cfg["pio_format"], "parallel": cfg["parallel"], "data_seed": m["data_seed"]}


def run_e2e(kind, cfg, workdir):
    c = dict(cfg)
    c["workdir"] = workdir
    t = 240
    status, res, secs = call_isolated(MOD, _E2E[kind], {"cfg": c}, t)
    return status, res, secs, t


def judge_e2e(kind, cfg, status, res, t):
    base = _base_witness(kind, cfg)
    via = (cfg.get("entry") or "direct") != "direct"
    pre = "rt/builder_" if via else "rt/"
    if status == "timeout":
        return [(pre + "filtered_sampling/terminates", dict(base, timeout_s=t, kind=kind), "filtered sampling did not return within %d s" % t)]
    if status == "crash":
        return [(pre + "filtered_sampling/runs", dict(base, kind=kind, error="interpreter exited: " + str(res)[-500:]), "sampling process died")]
    out = []
    for p in res["problems"]:
        p = dict(p)
        obl = p.pop("obligation")
        if via:
            obl = obl.replace("rt/", "rt/builder_", 1)
        w = dict(base, kind=kind)
        w.update(p)
        if obl.endswith("/runs"):
            msg = "filtered sampling raised: %s" % p.get("error")
        else:
            msg = "%stile %s (%s): %s pixels differ from %s; first %s observed %s expected %s" % (
                ("%s, %s: " % (cfg["entry"], cfg["coordsys"])) if via else "",
                p.get("tile"), "file missing, i.e. filtered out" if p.get("tile_missing") else "file present", p.get("n_bad"),
                "unfiltered sampling" if kind != "chunks" else "whole-map sampling", p.get("first_bad"), p.get("observed"), p.get("expected"))
        out.append((obl, w, msg))
    return out


def run(ctx):
    import shutil
    th = ctx.thorough
    seed = ctx.rng.randrange(10 ** 9)
    nproc = 14
    parts = [
        ("boxes", "part_boxes", {"seed": seed, "n_sweep": 160 if not th else 900, "n_seeded": 240 if not th else 2000,
                                 "sweep_depth": 3 if not th else 4, "max_depth": 12 if not th else 15, "nproc": nproc}, 400 if not th else 900),
        ("footprints", "part_footprints", {"seed": seed + 1, "n_images": 45 if not th else 400, "max_depth": 13 if not th else 15,
                                           "nproc": nproc, "probes_per_image": 10 if not th else 20,
                                           "n_aligned": 500 if not th else 4000}, 400 if not th else 900),
        ("chunks", "part_chunks", {"seed": seed + 2, "n_maps": 6 if not th else 60, "max_depth": 9 if not th else 12, "nproc": 6}, 400 if not th else 900),
    ]
    ctx.bound("boxes: %d random boxes x all tiles of depths 1..%d x alternating coordinate system; %d boxes seeded on a pixel centre of a "
              "tile of depth 1..%d" % (parts[0][2]["n_sweep"], parts[0][2]["sweep_depth"], parts[0][2]["n_seeded"], parts[0][2]["max_depth"]))
    ctx.bound("footprints: %d TAN images (1..2000 px per axis, 1e-4..3 deg/px, any rotation, both parities, RA=0, poles), %d probe "
              "points each x 2 depths (<= %d) chosen around the image scale; images wider than 3 deg also against all tiles to depth 3; "
              "%d boundary-value images (axis sizes 1..1000 incl. 29..33) laid with one edge over an extreme pixel of a random tile "
              "(depth 2..%d, image pixel = 0.5..8 tile pixels)"
              % (parts[1][2]["n_images"], parts[1][2]["probes_per_image"], parts[1][2]["max_depth"], parts[1][2]["n_aligned"],
                 parts[1][2]["max_depth"]))
    ctx.bound("chunks: %d maps (1..300 x 1..512 cells, 1..20 chunks with arbitrary cuts): all tiles to depth 3 + 6 border probes per "
              "chunk to depth %d" % (parts[2][2]["n_maps"], parts[2][2]["max_depth"]))
    ctx.assume("rt.c06_geom pixel centres; own gnomonic projection (cross-checked against astropy to 1e-10 px at design time)")
    ctx.assume("a centre counts as inside only with a margin (1e-9 rad / 1e-6 px); numpy/astropy/PIL codecs")
    e2e = gen_e2e(ctx.rng, th)
    ctx.bound("end to end: %d WCS images (footprint 20..70 deg, depth 1..3, fits/npy, workers 1..3) and %d chunked maps (rgb->png, "
              "f32->npy/fits, depth 1..2, random chunk order) compared pixel by pixel"
              % (len([1 for k, _ in e2e if k == "wcs"]), len([1 for k, _ in e2e if k == "chunks"])))
    groups = gen_entry_groups(ctx.seed, th)
    ctx.bound("entry points, both coordinate systems: %d lat/lon boxes (one across lon = 0; depth 2..3, npy/fits, workers 1..3) x "
              "{Builder.toast_base(is_planet=True | coordsys=...), sample_layer_filtered} x {planetary, astronomical}; %d chunked maps x "
              "Builder.toast_base(is_planet=True | coordsys=PLANETARY | defaults), one Builder object for all chunks of a map; %d WCS images x "
              "Builder (planetary, astronomical); %d sampling runs in %d interpreters, every tile compared pixel by pixel with unfiltered / "
              "whole-map sampling" % (len([1 for g in groups if g[0] == "box"]), len([1 for g in groups if g[0] == "chunks"]),
                                      len([1 for g in groups if g[0] == "wcs"]), sum(len(g[2]) for g in groups), len(groups)))
    per = {}
    t0 = time.time()
    group_timeout = 400

    def do_group(item):
        i, (kind, base, combos) = item
        wd = os.path.join(ctx.workdir, "g%03d" % i)
        r = call_isolated(MOD, "e2e_group", {"cfg": {"kind": kind, "base": base, "combos": combos, "workdir": wd}}, group_timeout)
        shutil.rmtree(wd, ignore_errors=True)
        return i, r

    def do_part(p):
        name, fn, args, tmo = p
        return name, call_isolated(MOD, fn, args, tmo), tmo

    def do_e2e(item):
        i, (kind, cfg) = item
        wd = os.path.join(ctx.workdir, "e%03d" % i)
        r = run_e2e(kind, cfg, wd)
        shutil.rmtree(wd, ignore_errors=True)
        return i, r

    with ThreadPoolExecutor(max_workers=3) as ex1, ThreadPoolExecutor(max_workers=4) as ex2, ThreadPoolExecutor(max_workers=4) as ex3:
        fut_parts = [ex1.submit(do_part, p) for p in parts]
        fut_groups = [ex3.submit(do_group, g) for g in enumerate(groups)]
        e2e_results = dict(ex2.map(do_e2e, list(enumerate(e2e))))
        group_results = dict(f.result() for f in fut_groups)
        part_results = [f.result() for f in fut_parts]

    calls = 0
    for name, (status, res, secs), tmo in part_results:
        if status != "ok":
            raise RuntimeError("C07 part %s did not complete: %s %s" % (name, status, str(res)[-800:]))
        calls += res["calls"]
        for c, nontrivial in res["cases"]:
            ctx.case(tuple(str(v) for v in c), nontrivial=nontrivial)
        ctx.note("%s: %d cases (%d with >= 1 tile holding a centre inside), %d filter evaluations, %d problems, %.1f s"
                 % (name, len(res["cases"]), res["nontrivial"], res["calls"], len(res["problems"]), secs))
        if res["cases"]:
            ctx.sample({"part": name, "first_case": res["cases"][0][0]})
        for obl, w, msg in res["problems"]:
            _report(ctx, per, obl, w, msg)
        if name == "footprints" and res["problems"]:
            big = [w for obl, w, _m in res["problems"] if obl.endswith("/accepts") and w.get("min_axis", 0) > 31]
            ctx.note("footprints: rejected-tile reports with an image axis <= 31 px: %d; with both axes >= 32 px: %d"
                     % (len([1 for obl, w, _m in res["problems"] if obl.endswith("/accepts")]) - len(big), len(big)))
    ctx.monitor("filter_evaluations_on_real_tiles", calls)
    tiles = 0
    for i, (kind, cfg) in enumerate(e2e):
        status, res, secs, t = e2e_results[i]
        key = ("e2e", kind, str(_image_witness(cfg) if kind == "wcs" else _chunk_witness(cfg)))
        ctx.case(key)
        if status == "ok":
            tiles += res.get("tiles", 0)
        if i % 5 == 0:
            ctx.sample({"part": "e2e-" + kind, "status": status, "tiles": (res or {}).get("tiles") if status == "ok" else None,
                        "depth": cfg["depth"], "parallel": cfg["parallel"]})
        for obl, w, msg in judge_e2e(kind, cfg, status, res, t):
            _report(ctx, per, obl, w, msg)
    undecided = 0
    n_runs = 0
    for i, (kind, base, combos) in enumerate(groups):
        status, res, secs = group_results[i]
        if status == "timeout":
            undecided += len(combos)
            continue
        for k, (entry, coordsys) in enumerate(combos):
            cfg = dict(base, entry=entry, coordsys=coordsys)
            ctx.case(("e2e-entry", kind, str(_base_witness(kind, cfg)), entry))
            n_runs += 1
            if status == "crash":
                found = judge_e2e(kind, cfg, "crash", res, group_timeout) if k == 0 else []
            else:
                r = res["runs"][k]
                tiles += r.get("tiles", 0)
                found = judge_e2e(kind, cfg, "ok", r, group_timeout)
            for obl, w, msg in found:
                _report(ctx, per, obl, w, msg)
        if i % 3 == 0 and status == "ok":
            ctx.sample({"part": "e2e-entry-" + kind, "combos": combos, "tiles": [r.get("tiles") for r in res["runs"]], "depth": base["depth"]})
    if undecided:
        ctx.note("entry points: %d sampling runs sat in a group that did not finish within %d s: undecided" % (undecided, group_timeout))
    ctx.monitor("e2e_tiles_compared", tiles)
    ctx.note("e2e: %d runs, %d tiles compared; total %.1f s; problems per obligation: %s"
             % (len(e2e), tiles, time.time() - t0, {k: v for k, v in per.items() if isinstance(k, str)}))


# ================================================================================================
# replay

def replay_filter(obligation, witness):
    """Isolated: rebuild the filter of a recorded witness and re-check the recorded tile path."""
    import warnings
    warnings.simplefilter("ignore")
    from toasty import samplers
    csname = witness.get("coordsys", "astronomical")
    kind = obligation.split("/")[1].split("_")[0]
    if kind == "latlon":
        box = (witness["lon_min"], witness["lon_max"], witness["lat_min"], witness["lat_max"])
        filt = samplers._latlon_tile_filter(*box)
        inside = lambda lo, la: in_box(lo, la, box)
    elif kind == "wcs":
        tan = Tan(witness["crval"], witness["crpix"], witness["cd"], witness["naxis1"], witness["naxis2"])
        ws = samplers.WcsSampler(np.zeros((tan.n2, tan.n1), np.float32), tan.astropy())
        filt = ws.filter()
        inside = lambda lo, la: tan.inside(lo, la)[0]
    else:
        H, W = witness["map_shape"]
        cx, cy, cw, ch = witness["chunk"]
        box = chunk_box(H, W, (cx, cy, cw, ch))

        class One(object):
            shape = (H, W)
            n_chunks = 1

            def chunk_spec(self, i):
                return (cx, cy, cw, ch)

            def chunk_data(self, i):
                return np.zeros((ch, cw), np.uint8)
        filt = samplers.ChunkedPlateCarreeSampler(One(), planetary=True).filter(0)
        inside = lambda lo, la: in_box(lo, la, box)
    ck = Checker(kind, filt, csname, {})
    if "leaf" not in witness:
        t = witness["tile"]
        ck.verdict(*t)
        return {"holds": not ck.problems, "message": "; ".join(p[2] for p in ck.problems) or "filter leaves the tile unchanged / does not raise"}
    n, x, y = witness["leaf"]
    lon, lat = centres(n, x, y, csname == "planetary")
    m = inside(lon, lat)
    if not m.any():
        return {"holds": True, "message": "no pixel centre of tile %s is inside any more" % (witness["leaf"],)}
    i, j = np.argwhere(m)[0]
    ok = ck.require_path(n, x, y, (i, j), (lon[i, j], lat[i, j]), {})
    return {"holds": bool(ok) and not ck.problems, "message": "; ".join(p[2] for p in ck.problems) or
            "tile %s and all its ancestors are accepted (%d centres inside)" % (witness["leaf"], int(m.sum()))}


def replay(obligation, witness):
    import shutil
    import tempfile
    if "_filter/" in obligation:
        status, res, secs = call_isolated(MOD, "replay_filter", {"obligation": obligation, "witness": witness}, 300)
        if status != "ok":
            return False, "replay did not complete: %s %s" % (status, str(res)[-300:])
        return bool(res["holds"]), res["message"]
    kind = witness.get("kind", "wcs" if "naxis1" in witness else "chunks")
    wd = tempfile.mkdtemp(prefix="c07_replay_")
    try:
        if kind == "box":
            cfg = {"box": {k: witness[k] for k in ("lon_min", "lon_max", "lat_min", "lat_max", "width", "family")}, "map_shape": witness["map_shape"],
                   "coordsys": witness["coordsys"], "depth": witness["depth"], "pio_format": witness["pio_format"], "parallel": witness["parallel"],
                   "data_seed": witness["data_seed"]}
        elif kind == "wcs":
            im = {"n1": witness["naxis1"], "n2": witness["naxis2"], "crval": witness["crval"], "crpix": witness["crpix"], "cd": witness["cd"],
                  "rot_rad": witness.get("rot_rad"), "parity": witness.get("parity"), "family": witness.get("family")}
            cfg = {"image": im, "coordsys": witness["coordsys"], "depth": witness["depth"], "pio_format": witness["pio_format"],
                   "parallel": witness["parallel"], "data_seed": witness["data_seed"]}
        else:
            H, W = witness["map_shape"]
            cfg = {"map": {"H": H, "W": W, "ycuts": witness["grid"][0], "xcuts": witness["grid"][1], "data_seed": witness["data_seed"]},
                   "coordsys": witness["coordsys"], "depth": witness["depth"], "data_kind": witness["data_kind"],
                   "pio_format": witness["pio_format"], "parallel": witness["parallel"], "order": witness["order"], "grid": witness["grid"]}
        if witness.get("entry"):
            cfg["entry"] = witness["entry"]
        status, res, secs, t = run_e2e(kind, cfg, os.path.join(wd, "p"))
    finally:
        shutil.rmtree(wd, ignore_errors=True)
    found = judge_e2e(kind, cfg, status, res, t)
    same = [f for f in found if f[0] == obligation]
    if same:
        return False, "still fails: %s" % same[0][2]
    if found:
        return False, "fails differently now: %s: %s" % (found[0][0], found[0][2])
    return True, "filtered sampling now equals the oracle on all %s tiles" % (res or {}).get("tiles")
