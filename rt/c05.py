"""C05 (bounded run-time tier) -- the 256 x 256 pixel grid of a TOAST tile is the set of centres
of the tiles eight levels deeper, and every centre lies inside the tile.

Oracle: rt/c04_sphere.py (independent 3-vector model of the documented octahedron subdivision).
For tile (n, x, y) the model gives the corners of the tile and, by 9 further midpoint
refinements, the centre of every tile (n+8, 256x+j, 256y+i); the centre of a tile is the
midpoint of its diagonal, i.e. the point its four children share.  Row index i <-> y (down),
column index j <-> x (right).  Nothing of toasty (``mid``, ``subsample``, ``_div4``) is used to
build the expectation.

Obligations and witness keys (all carry coordsys, n, x, y, increasing = documented orientation)
------------------------------------------------------------------------------------------------
rt/toast_tile_get_coords/pixel_is_deeper_tile_centre
        pixel (i, j) is not the centre of tile (n+8, 256x+j, 256y+i) of the documented pixelisation
        {.., i, j, dist, n_bad, transposed_matches}
rt/toast_tile_get_coords/matches_python_tiles
        pixel (i, j) is not the diagonal midpoint of the tile that toasty's own
        create_single_tile builds for (n+8, 256x+j, 256y+i)   (compiled vs Python subdivision)
        {.., i, j, dist}
rt/toast_tile_get_coords/inside_tile
        a pixel centre is outside the spherical quadrilateral of its tile      {.., i, j, margin}
rt/toast_tile_get_coords/latitude_range
        a pixel latitude is outside [min, max] of the corner latitudes         {.., i, j, lat, lat_min, lat_max}
rt/toast_tile_get_coords/shape
        result is not two finite float arrays of shape (256, 256)              {.., shapes}
rt/toast_tile_get_coords/raises                                               {.., error}

Bounds
------
quick   : all tiles of levels 1..4 (340 per system) + 400 random tiles of depth 5..20 per system
          (uniform, pole-hugging, border/equator, diagonals); all 65 536 pixels of each tile
          against the model; 24 pixels per tile (4 corner pixels, 4 centre pixels, 16 random)
          against toasty's own deeper tile.
thorough: levels 1..6 (5460 per system) + 2500 random tiles of depth 7..20 per system.
Tolerances: positions as unit vectors, chord <= 1e-12; inside-margin >= -1e-12 rad; latitude
range +- 1e-12 rad.

Trusted: numpy; rt/c04_sphere.py; create_single_tile only as the source of the Tile handed to
toast_tile_get_coords (its corners are checked against the model by C04 and again here).
Work is fanned out over isolated interpreters (rt.common.call_isolated) from threads.
"""
import math
import os
from concurrent.futures import ThreadPoolExecutor

import numpy as np

from rt import c04_sphere as S
from rt.common import call_isolated

TOL = 1e-12
# workers are single-threaded: 14 of them already fill the machine (BLAS threads would oversubscribe it)
_ONE_THREAD = {"OMP_NUM_THREADS": "1", "OPENBLAS_NUM_THREADS": "1", "MKL_NUM_THREADS": "1"}
CAP = 5
N_SUB = 24


def _check_one(T, Pos, coordsys, n, x, y, sub_seed, extra_pix=()):
    """Check one tile.  Returns a list of (obligation, witness, message)."""
    out = []
    q, inc = S.tile_quad(coordsys, n, x, y)
    w0 = {"coordsys": coordsys, "n": n, "x": x, "y": y, "increasing": bool(inc)}
    cs = T.ToastCoordinateSystem(coordsys)
    try:
        tile = T.create_single_tile(Pos(n=n, x=x, y=y), coordsys=cs)
        lons, lats = T.toast_tile_get_coords(tile)
    except Exception as e:
        out.append(("rt/toast_tile_get_coords/raises", dict(w0, error=repr(e)), "toast_tile_get_coords raised %r" % (e,)))
        return out
    lons = np.asarray(lons)
    lats = np.asarray(lats)
    if lons.shape != (256, 256) or lats.shape != (256, 256) or not (np.all(np.isfinite(lons)) and np.all(np.isfinite(lats))):
        out.append(("rt/toast_tile_get_coords/shape", dict(w0, shapes=[list(lons.shape), list(lats.shape)]),
                    "expected two finite (256, 256) arrays, got shapes %r %r" % (lons.shape, lats.shape)))
        return out
    v = S.ll2v(lons, lats)
    # (1) against the documented pixelisation
    C = S.quad_pixel_centres(q, inc, 8)
    d = S.chord(v, C)
    bad = ~(d <= TOL)
    if bad.any():
        i, j = np.unravel_index(int(np.argmax(np.where(np.isnan(d), np.inf, d))), d.shape)
        dt = S.chord(np.transpose(v, (1, 0, 2)), C)
        out.append(("rt/toast_tile_get_coords/pixel_is_deeper_tile_centre",
                    dict(w0, i=int(i), j=int(j), dist=float(d[i, j]), n_bad=int(bad.sum()), transposed_matches=bool(np.all(dt <= TOL))),
                    "pixel (row %d, col %d) of tile (%d,%d,%d) is %.3g (chord) away from the centre of tile (%d,%d,%d); %d of 65536 pixels differ"
                    % (i, j, n, x, y, d[i, j], n + 8, 256 * x + j, 256 * y + i, int(bad.sum()))))
    # (2) inside the tile
    mg = S.quad_inside_margin(q, v)
    badm = ~(mg >= -TOL)
    if badm.any():
        i, j = np.unravel_index(int(np.argmin(np.where(np.isnan(mg), -np.inf, mg))), mg.shape)
        out.append(("rt/toast_tile_get_coords/inside_tile", dict(w0, i=int(i), j=int(j), margin=float(mg[i, j]), n_bad=int(badm.sum())),
                    "pixel (row %d, col %d) of tile (%d,%d,%d) lies %.3g rad outside the tile" % (i, j, n, x, y, -mg[i, j])))
    # (3) latitude range of the corners
    _lon_c, lat_c = S.v2ll(q)
    lo, hi = float(lat_c.min()), float(lat_c.max())
    badl = ~((lats >= lo - TOL) & (lats <= hi + TOL))
    if badl.any():
        exc = np.maximum(lo - lats, lats - hi)
        i, j = np.unravel_index(int(np.argmax(exc)), exc.shape)
        out.append(("rt/toast_tile_get_coords/latitude_range",
                    dict(w0, i=int(i), j=int(j), lat=float(lats[i, j]), lat_min=lo, lat_max=hi, n_bad=int(badl.sum())),
                    "pixel (row %d, col %d) of tile (%d,%d,%d) has latitude %.15g outside the corner range [%.15g, %.15g]"
                    % (i, j, n, x, y, lats[i, j], lo, hi)))
    # (4) against toasty's own tiles eight levels deeper (compiled subdivision vs Python subdivision)
    import random
    r = random.Random(sub_seed)
    pix = list(extra_pix) + [(0, 0), (0, 255), (255, 0), (255, 255), (127, 127), (127, 128), (128, 127), (128, 128)]
    while len(pix) < N_SUB:
        pix.append((r.randrange(256), r.randrange(256)))
    worst = None
    for (i, j) in pix:
        try:
            dt = T.create_single_tile(Pos(n=n + 8, x=256 * x + j, y=256 * y + i), coordsys=cs)
        except Exception as e:
            out.append(("rt/toast_tile_get_coords/matches_python_tiles", dict(w0, i=i, j=j, dist=None, error=repr(e)),
                        "create_single_tile of the deeper tile raised %r" % (e,)))
            break
        cv = S.ll2v(np.asarray(dt.corners, dtype=float).reshape(4, 2)[:, 0], np.asarray(dt.corners, dtype=float).reshape(4, 2)[:, 1])
        cen = S.quad_centre(cv, bool(dt.increasing))
        dd = float(S.chord(v[i, j], cen))
        if not dd <= TOL and (worst is None or dd > worst[2]):
            worst = (i, j, dd)
    if worst is not None:
        i, j, dd = worst
        out.append(("rt/toast_tile_get_coords/matches_python_tiles", dict(w0, i=i, j=j, dist=dd),
                    "pixel (row %d, col %d) of tile (%d,%d,%d) is %.3g away from the diagonal midpoint of toasty's own tile (%d,%d,%d)"
                    % (i, j, n, x, y, dd, n + 8, 256 * x + j, 256 * y + i)))
    return out


def work(coordsys, tiles, seed):
    """Isolated worker: check a list of [n, x, y]."""
    from toasty import toast as T
    from toasty.pyramid import Pos
    res = []
    for k, (n, x, y) in enumerate(tiles):
        for (obl, wit, msg) in _check_one(T, Pos, coordsys, int(n), int(x), int(y), seed * 1000003 + k):
            res.append([obl, wit, msg])
    return {"n": len(tiles), "violations": res}


def _random_tile(rng, lo, hi, mode):
    n = rng.randint(lo, hi)
    m = 1 << n
    if mode == 0:
        x, y = rng.randrange(m), rng.randrange(m)
    elif mode == 1:     # around the north pole / the centre cross
        x = m // 2 - rng.randint(0, 1) if rng.random() < 0.6 else rng.randrange(m)
        y = m // 2 - rng.randint(0, 1) if rng.random() < 0.6 else rng.randrange(m)
    elif mode == 2:     # border of the square (south pole, seams) and the equator diamond
        x = rng.choice([0, m - 1, rng.randrange(m)])
        y = rng.choice([0, m - 1, (m // 2 - 1 - x) % m, (x - m // 2) % m, (x + m // 2) % m])
    else:               # the diagonals
        x = rng.randrange(m)
        y = x if rng.random() < 0.5 else m - 1 - x
    return [n, x, y]


def run(ctx):
    rng = ctx.rng
    d_exh = 6 if ctx.thorough else 4
    n_rand = 2500 if ctx.thorough else 400
    d_max = 20
    ctx.bound("both coordinate systems; all tiles of levels 1..%d and %d random tiles of depth %d..%d per system; all 65536 pixels "
              "of each compared with the centres of the documented tiles 8 levels deeper (chord <= %g), inside-tile margin and "
              "corner latitude range (+-%g rad)" % (d_exh, n_rand, d_exh + 1, d_max, TOL, TOL))
    ctx.bound("%d pixels per tile (4 corner pixels, 4 central, random) compared with the diagonal midpoint of toasty's own "
              "create_single_tile(n+8, 256x+j, 256y+i)" % N_SUB)
    ctx.assume("rt/c04_sphere.py is a faithful model of the documented TOAST subdivision; centre of a tile = midpoint of its diagonal")
    ctx.assume("the Tile passed to toast_tile_get_coords comes from create_single_tile (route independence is property C04)")

    jobs = []
    nworkers = max(2, min(14, (os.cpu_count() or 4) - 2))
    for coordsys in S.COORDSYS:
        tiles = [[n, x, y] for n in range(1, d_exh + 1) for x in range(1 << n) for y in range(1 << n)]
        for i in range(n_rand):
            tiles.append(_random_tile(rng, d_exh + 1, d_max, i % 4))
        # interleaved chunks have about equal cost
        per = max(1, nworkers // 2)
        for c in range(per):
            jobs.append((coordsys, tiles[c::per]))
    timeout = 540 if ctx.thorough else 120

    def do(job):
        coordsys, tiles = job
        return job, call_isolated("rt.c05", "work", {"coordsys": coordsys, "tiles": tiles, "seed": ctx.seed}, timeout, env=_ONE_THREAD)

    counts = {}
    with ThreadPoolExecutor(max_workers=nworkers) as ex:
        results = list(ex.map(do, jobs))
    for (coordsys, tiles), (status, res, secs) in results:
        if status != "ok":
            raise RuntimeError("C05 worker %s after %.0fs: %r" % (status, secs, res))
        for (n, x, y) in tiles:
            ctx.case((coordsys, n, x, y))
        for (obl, wit, msg) in res["violations"]:
            k = counts.get(obl, 0)
            counts[obl] = k + 1
            if k < CAP:
                ctx.violation(obl, wit, msg)
        if tiles:
            ctx.sample({"coordsys": coordsys, "tile": tiles[-1], "pixels_checked": 65536, "worker_secs": round(secs, 1)})
    for obl, k in sorted(counts.items()):
        if k > CAP:
            ctx.note("%s: %d failing tiles met, first %d reported" % (obl, k, CAP))


def replay(obligation, witness):
    from toasty import toast as T
    from toasty.pyramid import Pos
    extra = [(int(witness["i"]), int(witness["j"]))] if "i" in witness and "j" in witness else []
    res = _check_one(T, Pos, witness["coordsys"], int(witness["n"]), int(witness["x"]), int(witness["y"]), 0, extra)
    same = [r for r in res if r[0] == obligation]
    if same:
        return False, same[0][2]
    if res:
        return False, "recorded obligation holds now, but: %s" % res[0][2]
    return True, "all 65536 pixels of the recorded tile satisfy the property"
