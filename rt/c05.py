"""C05 (bounded run-time tier) -- the 256 x 256 pixel grid of a TOAST tile is the set of centres
of the tiles eight levels deeper, and every centre lies inside the tile.

Oracle: rt/c04_sphere.py (independent 3-vector model of the documented octahedron subdivision).
For tile (n, x, y) the model gives the corners of the tile and, by 9 further midpoint
refinements, the centre of every tile (n+8, 256x+j, 256y+i); the centre of a tile is the
midpoint of its diagonal, i.e. the point its four children share.  Row index i <-> y (down),
column index j <-> x (right).  Nothing of toasty (``mid``, ``subsample``, ``_div4``) is used to
build the expectation.

Obligations and witness keys (all carry coordsys, n, x, y, increasing = documented orientation)
------------------------------------------------------------------------------------------------
rt/toast_tile_get_coords/pixel_is_deeper_tile_centre
        pixel (i, j) is not the centre of tile (n+8, 256x+j, 256y+i) of the documented pixelisation
        {.., i, j, dist, n_bad, transposed_matches}
rt/toast_tile_get_coords/matches_python_tiles
        pixel (i, j) is not the diagonal midpoint of the tile that toasty's own
        create_single_tile builds for (n+8, 256x+j, 256y+i)   (compiled vs Python subdivision)
        {.., i, j, dist}
rt/toast_tile_get_coords/inside_tile
        a pixel centre is outside the spherical quadrilateral of its tile      {.., i, j, margin}
rt/toast_tile_get_coords/latitude_range
        a pixel latitude is outside [min, max] of the corner latitudes         {.., i, j, lat, lat_min, lat_max}
rt/toast_tile_get_coords/shape
        result is not two finite float arrays of shape (256, 256)              {.., shapes}
rt/toast_tile_get_coords/raises                                               {.., error}

Call-order independence (one process, several requests one after the other; witness keys
``sequence`` = [[coordsys, n, x, y], ...] executed in that order in ONE fresh interpreter, ``kind``,
``step`` = index of the failing request, coordsys, n, x, y of that request):
rt/call_sequence/pixel_is_deeper_tile_centre
        the arrays returned for request ``step`` are not the centres of the documented deeper tiles
        although the same request is fine on its own -- something is carried over from an earlier
        call (cache keyed without the coordinate system / level / x / y, reused state)
        {.., i, j, dist, n_bad, matches_request = index of an earlier request whose expectation the result equals, or null}
rt/call_sequence/earlier_result_unchanged
        arrays handed out for request ``step`` were correct when returned and are not any more
        after the later requests of the sequence (shared / reused output buffer)   {.., i, j, dist, n_bad}
rt/call_sequence/tile_corners
        create_single_tile (the source of the Tile) returned other corners / orientation than the
        documented tile for request ``step`` of the sequence                        {.., corner, dist}
rt/call_sequence/raises                                                          {.., error}

Bounds
------
quick   : all tiles of levels 1..4 (340 per system) + 400 random tiles of depth 5..20 per system
          (uniform, pole-hugging, border/equator, diagonals); all 65 536 pixels of each tile
          against the model; 24 pixels per tile (4 corner pixels, 4 centre pixels, 16 random)
          against toasty's own deeper tile.
          + call sequences: for the 4 level-1 positions, 6 random level-2 and 24 random ones of depth
          2..19 the six sequence kinds of ``_sequences`` (both systems consecutively in both orders, repeats,
          two positions interleaved across systems, partner positions sharing n&x / n&y / x&y),
          every result compared with the model, every retained result re-compared at the end.
thorough: levels 1..6 (5460 per system) + 2500 random tiles of depth 7..20 per system;
          call sequences for 84 level-1..3 positions and 400 random ones.
Tolerances: positions as unit vectors, chord <= 1e-12; inside-margin >= -1e-12 rad; latitude
range +- 1e-12 rad.

Trusted: numpy; rt/c04_sphere.py; create_single_tile only as the source of the Tile handed to
toast_tile_get_coords (its corners are checked against the model by C04 and again here).
Work is fanned out over isolated interpreters (rt.common.call_isolated) from threads.
"""
import math
import os
from concurrent.futures import ThreadPoolExecutor

import numpy as np

from rt import c04_sphere as S
from rt.common import call_isolated

TOL = 1e-12
# workers are single-threaded: 14 of them already fill the machine (BLAS threads would oversubscribe it)
_ONE_THREAD = {"OMP_NUM_THREADS": "1", "OPENBLAS_NUM_THREADS": "1", "MKL_NUM_THREADS": "1"}
CAP = 5
N_SUB = 24


def _check_one(T, Pos, coordsys, n, x, y, sub_seed, extra_pix=()):
    """Check one tile.  Returns a list of (obligation, witness, message)."""
    out = []
    q, inc = S.tile_quad(coordsys, n, x, y)
    w0 = {"coordsys": coordsys, "n": n, "x": x, "y": y, "increasing": bool(inc)}
    cs = T.ToastCoordinateSystem(coordsys)
    try:
        tile = T.create_single_tile(Pos(n=n, x=x, y=y), coordsys=cs)
        lons, lats = T.toast_tile_get_coords(tile)
    except Exception as e:
        out.append(("rt/toast_tile_get_coords/raises", dict(w0, error=repr(e)), "toast_tile_get_coords raised %r" % (e,)))
        return out
    lons = np.asarray(lons)
    lats = np.asarray(lats)
    if lons.shape != (256, 256) or lats.shape != (256, 256) or not (np.all(np.isfinite(lons)) and np.all(np.isfinite(lats))):
        out.append(("rt/toast_tile_get_coords/shape", dict(w0, shapes=[list(lons.shape), list(lats.shape)]),
                    "expected two finite (256, 256) arrays, got shapes %r %r" % (lons.shape, lats.shape)))
        return out
    v = S.ll2v(lons, lats)
    # (1) against the documented pixelisation
    C = S.quad_pixel_centres(q, inc, 8)
    d = S.chord(v, C)
    bad = ~(d <= TOL)
    if bad.any():
        i, j = np.unravel_index(int(np.argmax(np.where(np.isnan(d), np.inf, d))), d.shape)
        dt = S.chord(np.transpose(v, (1, 0, 2)), C)
        out.append(("rt/toast_tile_get_coords/pixel_is_deeper_tile_centre",
                    dict(w0, i=int(i), j=int(j), dist=float(d[i, j]), n_bad=int(bad.sum()), transposed_matches=bool(np.all(dt <= TOL))),
                    "pixel (row %d, col %d) of tile (%d,%d,%d) is %.3g (chord) away from the centre of tile (%d,%d,%d); %d of 65536 pixels differ"
                    % (i, j, n, x, y, d[i, j], n + 8, 256 * x + j, 256 * y + i, int(bad.sum()))))
    # (2) inside the tile
    mg = S.quad_inside_margin(q, v)
    badm = ~(mg >= -TOL)
    if badm.any():
        i, j = np.unravel_index(int(np.argmin(np.where(np.isnan(mg), -np.inf, mg))), mg.shape)
        out.append(("rt/toast_tile_get_coords/inside_tile", dict(w0, i=int(i), j=int(j), margin=float(mg[i, j]), n_bad=int(badm.sum())),
                    "pixel (row %d, col %d) of tile (%d,%d,%d) lies %.3g rad outside the tile" % (i, j, n, x, y, -mg[i, j])))
    # (3) latitude range of the corners
    _lon_c, lat_c = S.v2ll(q)
    lo, hi = float(lat_c.min()), float(lat_c.max())
    badl = ~((lats >= lo - TOL) & (lats <= hi + TOL))
    if badl.any():
        exc = np.maximum(lo - lats, lats - hi)
        i, j = np.unravel_index(int(np.argmax(exc)), exc.shape)
        out.append(("rt/toast_tile_get_coords/latitude_range",
                    dict(w0, i=int(i), j=int(j), lat=float(lats[i, j]), lat_min=lo, lat_max=hi, n_bad=int(badl.sum())),
                    "pixel (row %d, col %d) of tile (%d,%d,%d) has latitude %.15g outside the corner range [%.15g, %.15g]"
                    % (i, j, n, x, y, lats[i, j], lo, hi)))
    # (4) against toasty's own tiles eight levels deeper (compiled subdivision vs Python subdivision)
    import random
    r = random.Random(sub_seed)
    pix = list(extra_pix) + [(0, 0), (0, 255), (255, 0), (255, 255), (127, 127), (127, 128), (128, 127), (128, 128)]
    while len(pix) < N_SUB:
        pix.append((r.randrange(256), r.randrange(256)))
    worst = None
    for (i, j) in pix:
        try:
            dt = T.create_single_tile(Pos(n=n + 8, x=256 * x + j, y=256 * y + i), coordsys=cs)
        except Exception as e:
            out.append(("rt/toast_tile_get_coords/matches_python_tiles", dict(w0, i=i, j=j, dist=None, error=repr(e)),
                        "create_single_tile of the deeper tile raised %r" % (e,)))
            break
        cv = S.ll2v(np.asarray(dt.corners, dtype=float).reshape(4, 2)[:, 0], np.asarray(dt.corners, dtype=float).reshape(4, 2)[:, 1])
        cen = S.quad_centre(cv, bool(dt.increasing))
        dd = float(S.chord(v[i, j], cen))
        if not dd <= TOL and (worst is None or dd > worst[2]):
            worst = (i, j, dd)
    if worst is not None:
        i, j, dd = worst
        out.append(("rt/toast_tile_get_coords/matches_python_tiles", dict(w0, i=i, j=j, dist=dd),
                    "pixel (row %d, col %d) of tile (%d,%d,%d) is %.3g away from the diagonal midpoint of toasty's own tile (%d,%d,%d)"
                    % (i, j, n, x, y, dd, n + 8, 256 * x + j, 256 * y + i)))
    return out


O_SEQ_PIX = "rt/call_sequence/pixel_is_deeper_tile_centre"
O_SEQ_KEEP = "rt/call_sequence/earlier_result_unchanged"
O_SEQ_TILE = "rt/call_sequence/tile_corners"
O_SEQ_RAISE = "rt/call_sequence/raises"


def _partner(rng, p, mode):
    """A second position related to p the way a too coarse cache key would confuse them."""
    n, x, y = p
    m = 1 << n
    if mode == 0:       # same level and column
        return [n, x, (y + rng.randrange(1, m)) % m]
    if mode == 1:       # same level and row
        return [n, (x + rng.randrange(1, m)) % m, y]
    if mode == 2:       # same x, y one level deeper (other level, same indices)
        return [n + 1, x, y]
    if mode == 3:       # transposed indices
        return [n, y, x] if x != y else [n, x, (y + 1) % m]
    return _random_tile(rng, max(1, n - 1), n + 1, 0)


def _sequences(p, q):
    """The request sequences run for position p (and partner q); A/P = astronomical/planetary."""
    A, P = S.COORDSYS
    a, b, c, d = [A] + p, [P] + p, [A] + q, [P] + q
    return [
        ("sky_then_planet", [a, b]),
        ("planet_then_sky", [b, a]),
        ("repeats", [a, a, b, b, a]),
        ("planet_repeats", [b, b, a, b]),
        ("interleaved", [a, c, a, d, b, c, d, a]),
        ("interleaved_planet_first", [d, b, c, b, a]),
    ]


def _run_sequence(T, Pos, kind, seq, models):
    """Execute the requests of ``seq`` consecutively in this process; every answer is compared
    with the model of ITS OWN request, and once more when the sequence is over."""
    out = []
    kept = []
    seqj = [list(r) for r in seq]
    for step, (coordsys, n, x, y) in enumerate(seq):
        n, x, y = int(n), int(x), int(y)
        key = (coordsys, n, x, y)
        if key not in models:
            q, inc = S.tile_quad(coordsys, n, x, y)
            models[key] = (q, inc, S.quad_pixel_centres(q, inc, 8))
        q, inc, C = models[key]
        w0 = {"kind": kind, "sequence": seqj, "step": step, "coordsys": coordsys, "n": n, "x": x, "y": y}
        try:
            tile = T.create_single_tile(Pos(n=n, x=x, y=y), coordsys=T.ToastCoordinateSystem(coordsys))
            lons, lats = T.toast_tile_get_coords(tile)
        except Exception as e:
            out.append((O_SEQ_RAISE, dict(w0, error=repr(e)), "request %d of the sequence raised %r" % (step, e)))
            continue
        cc = np.asarray(tile.corners, dtype=float).reshape(4, 2)
        dc = S.chord(S.ll2v(cc[:, 0], cc[:, 1]), q)
        if not np.all(dc <= TOL) or bool(tile.increasing) != bool(inc):
            k = int(np.argmax(np.where(np.isnan(dc), np.inf, dc)))
            out.append((O_SEQ_TILE, dict(w0, corner=k, dist=float(dc[k]), increasing=bool(tile.increasing), expected_increasing=bool(inc)),
                        "request %d (%s %d,%d,%d): create_single_tile corner %d is %.3g away from the documented one (orientation %r, documented %r)"
                        % (step, coordsys, n, x, y, k, dc[k], bool(tile.increasing), bool(inc))))
        la, lb = np.asarray(lons), np.asarray(lats)
        if la.shape != (256, 256) or lb.shape != (256, 256):
            out.append((O_SEQ_PIX, dict(w0, i=None, j=None, dist=None, n_bad=65536, matches_request=None, shapes=[list(la.shape), list(lb.shape)]),
                        "request %d returned shapes %r %r" % (step, la.shape, lb.shape)))
            continue
        d = S.chord(S.ll2v(la, lb), C)
        bad = ~(d <= TOL)
        if bad.any():
            i, j = np.unravel_index(int(np.argmax(np.where(np.isnan(d), np.inf, d))), d.shape)
            same_as = None
            for e in range(step):
                ke = (seq[e][0], int(seq[e][1]), int(seq[e][2]), int(seq[e][3]))
                if ke != key and np.all(S.chord(S.ll2v(la, lb), models[ke][2]) <= TOL):
                    same_as = e
                    break
            out.append((O_SEQ_PIX, dict(w0, i=int(i), j=int(j), dist=float(d[i, j]), n_bad=int(bad.sum()), matches_request=same_as),
                        "request %d of %r (%s tile %d,%d,%d): pixel (row %d, col %d) is %.3g away from the centre of tile (%d,%d,%d); %d of 65536 "
                        "pixels differ%s" % (step, kind, coordsys, n, x, y, i, j, d[i, j], n + 8, 256 * x + j, 256 * y + i, int(bad.sum()),
                                             "; the result is the answer to request %d (%s %s)" % (same_as, seq[same_as][0], seq[same_as][1:])
                                             if same_as is not None else "")))
        else:
            kept.append((step, key, lons, lats))
    for (step, key, lons, lats) in kept:
        d = S.chord(S.ll2v(np.asarray(lons), np.asarray(lats)), models[key][2])
        bad = ~(d <= TOL)
        if bad.any():
            i, j = np.unravel_index(int(np.argmax(np.where(np.isnan(d), np.inf, d))), d.shape)
            w0 = {"kind": kind, "sequence": seqj, "step": step, "coordsys": key[0], "n": key[1], "x": key[2], "y": key[3]}
            out.append((O_SEQ_KEEP, dict(w0, i=int(i), j=int(j), dist=float(d[i, j]), n_bad=int(bad.sum())),
                        "the arrays returned for request %d (%s tile %d,%d,%d) were right when returned; after the later requests %d of their "
                        "pixels changed (pixel (%d,%d) off by %.3g)" % (step, key[0], key[1], key[2], key[3], int(bad.sum()), i, j, d[i, j])))
    return out


def work_order(scripts):
    """Isolated worker: scripts = [[kind, [[coordsys, n, x, y], ...]], ...], all run one after the
    other in this one interpreter (state, if any, accumulates exactly as in a user's session)."""
    from toasty import toast as T
    from toasty.pyramid import Pos
    res = []
    n_req = 0
    models = {}        # oracle side only: model grids of the (system, position) pairs of the current scripts
    for kind, seq in scripts:
        keys = set((r[0], int(r[1]), int(r[2]), int(r[3])) for r in seq)
        for k_ in [k_ for k_ in models if k_ not in keys]:
            del models[k_]
        n_req += len(seq)
        for (obl, wit, msg) in _run_sequence(T, Pos, kind, seq, models):
            res.append([obl, wit, msg])
    return {"n": len(scripts), "requests": n_req, "violations": res}


O_L0 = "rt/level0_grid/pixel_is_level8_tile_centre"


def _check_level0(T, coordsys):
    """Depth 0: the grid handed to the sampler for the single level-0 tile (observed through the public
    sample_layer) must put the centre of tile (8, col, row) at pixel (row, col)."""
    import tempfile
    import shutil
    from toasty.pyramid import PyramidIO
    out = []
    w0 = {"coordsys": coordsys, "n": 0, "x": 0, "y": 0}
    seen = []

    def sampler(lon, lat):
        seen.append((np.array(lon, dtype=float), np.array(lat, dtype=float)))
        return np.zeros(np.shape(lon), dtype=np.float32) + 1

    d = tempfile.mkdtemp(prefix="c05_l0_")
    try:
        try:
            T.sample_layer(PyramidIO(d, default_format="npy"), sampler, 0, coordsys=T.ToastCoordinateSystem(coordsys), parallel=1)
        except Exception as e:
            out.append(("rt/level0_grid/raises", dict(w0, error=repr(e)), "sample_layer(depth 0) raised %r" % (e,)))
            return out
    finally:
        shutil.rmtree(d, ignore_errors=True)
    if len(seen) != 1 or seen[0][0].shape != (256, 256):
        out.append(("rt/level0_grid/shape", dict(w0, calls=len(seen)), "expected one sampler call with (256, 256) grids, got %d" % len(seen)))
        return out
    lons, lats = seen[0]
    v = S.ll2v(lons, lats)
    C = np.zeros((256, 256, 3))
    for (tx, ty) in ((0, 0), (1, 0), (0, 1), (1, 1)):
        q, inc = S.tile_quad(coordsys, 1, tx, ty)
        C[128 * ty:128 * ty + 128, 128 * tx:128 * tx + 128] = S.quad_pixel_centres(q, inc, 7)
    dd = S.chord(v, C)
    bad = ~(dd <= TOL)
    if bad.any():
        i, j = np.unravel_index(int(np.argmax(np.where(np.isnan(dd), np.inf, dd))), dd.shape)
        out.append((O_L0, dict(w0, i=int(i), j=int(j), dist=float(dd[i, j]), n_bad=int(bad.sum())),
                    "pixel (row %d, col %d) of the level-0 grid is %.3g (chord) away from the centre of tile (8,%d,%d); %d of 65536 pixels differ"
                    % (i, j, dd[i, j], j, i, int(bad.sum()))))
    return out


def work(coordsys, tiles, seed):
    """Isolated worker: check a list of [n, x, y]."""
    from toasty import toast as T
    from toasty.pyramid import Pos
    res = []
    for k, (n, x, y) in enumerate(tiles):
        if int(n) == 0:
            for (obl, wit, msg) in _check_level0(T, coordsys):
                res.append([obl, wit, msg])
            continue
        for (obl, wit, msg) in _check_one(T, Pos, coordsys, int(n), int(x), int(y), seed * 1000003 + k):
            res.append([obl, wit, msg])
    return {"n": len(tiles), "violations": res}


def _random_tile(rng, lo, hi, mode):
    n = rng.randint(lo, hi)
    m = 1 << n
    if mode == 0:
        x, y = rng.randrange(m), rng.randrange(m)
    elif mode == 1:     # around the north pole / the centre cross
        x = m // 2 - rng.randint(0, 1) if rng.random() < 0.6 else rng.randrange(m)
        y = m // 2 - rng.randint(0, 1) if rng.random() < 0.6 else rng.randrange(m)
    elif mode == 2:     # border of the square (south pole, seams) and the equator diamond
        x = rng.choice([0, m - 1, rng.randrange(m)])
        y = rng.choice([0, m - 1, (m // 2 - 1 - x) % m, (x - m // 2) % m, (x + m // 2) % m])
    else:               # the diagonals
        x = rng.randrange(m)
        y = x if rng.random() < 0.5 else m - 1 - x
    return [n, x, y]


def run(ctx):
    rng = ctx.rng
    d_exh = 6 if ctx.thorough else 4
    n_rand = 2500 if ctx.thorough else 400
    d_max = 20
    ctx.bound("the level-0 grid (as handed to the sampler by sample_layer(depth 0)), both coordinate systems, all 65536 pixels")
    ctx.bound("both coordinate systems; all tiles of levels 1..%d and %d random tiles of depth %d..%d per system; all 65536 pixels "
              "of each compared with the centres of the documented tiles 8 levels deeper (chord <= %g), inside-tile margin and "
              "corner latitude range (+-%g rad)" % (d_exh, n_rand, d_exh + 1, d_max, TOL, TOL))
    ctx.bound("%d pixels per tile (4 corner pixels, 4 central, random) compared with the diagonal midpoint of toasty's own "
              "create_single_tile(n+8, 256x+j, 256y+i)" % N_SUB)
    ctx.assume("rt/c04_sphere.py is a faithful model of the documented TOAST subdivision; centre of a tile = midpoint of its diagonal")
    ctx.assume("the Tile passed to toast_tile_get_coords comes from create_single_tile (route independence is property C04)")

    jobs = []
    nworkers = max(2, min(14, (os.cpu_count() or 4) - 2))
    for coordsys in S.COORDSYS:
        tiles = [[0, 0, 0]] + [[n, x, y] for n in range(1, d_exh + 1) for x in range(1 << n) for y in range(1 << n)]
        for i in range(n_rand):
            tiles.append(_random_tile(rng, d_exh + 1, d_max, i % 4))
        # interleaved chunks have about equal cost
        per = max(1, nworkers // 2)
        for c in range(per):
            jobs.append((coordsys, tiles[c::per]))
    timeout = 540 if ctx.thorough else 120

    # call sequences: several requests one after the other in ONE interpreter
    d_seq = 3 if ctx.thorough else 1
    n_seq_rand = 400 if ctx.thorough else 30
    seq_pos = [[n, x, y] for n in range(1, d_seq + 1) for x in range(1 << n) for y in range(1 << n)]
    for i in range(n_seq_rand):
        # quick: the first 6 random positions are level-2 tiles
        seq_pos.append(_random_tile(rng, d_seq + 1, d_seq + 1 if (not ctx.thorough and i < 6) else d_max - 1, i % 4))
    per_pos = []
    for i, p in enumerate(seq_pos):
        q = _partner(rng, p, i % 5)
        per_pos.append([[kind, seq] for kind, seq in _sequences(p, q)])
    n_seq_jobs = max(1, min(nworkers, len(per_pos) // 2))
    seq_jobs = [[s_ for pp in per_pos[c::n_seq_jobs] for s_ in pp] for c in range(n_seq_jobs)]
    ctx.bound("call order, one interpreter per %d positions: for %d positions (all of levels 1..%d, %d random up to depth %d) and a "
              "partner position (same level & column / same level & row / same x,y one level deeper / transposed / random) the "
              "sequences %s of (system, position) requests to create_single_tile + toast_tile_get_coords, executed consecutively; every "
              "answer compared with the model of its own request (all 65536 pixels) and again after the sequence"
              % (-(-len(per_pos) // n_seq_jobs), len(seq_pos), d_seq, n_seq_rand, d_max - 1,
                 ", ".join("%s[%d]" % (k, len(q_)) for k, q_ in _sequences([1, 0, 0], [1, 0, 1]))))

    def do(job):
        coordsys, tiles = job
        return job, call_isolated("rt.c05", "work", {"coordsys": coordsys, "tiles": tiles, "seed": ctx.seed}, timeout, env=_ONE_THREAD)

    def do_seq(scripts):
        return scripts, call_isolated("rt.c05", "work_order", {"scripts": scripts}, timeout, env=_ONE_THREAD)

    counts = {}
    with ThreadPoolExecutor(max_workers=nworkers) as ex:
        seq_futs = [ex.submit(do_seq, sj) for sj in seq_jobs]
        results = list(ex.map(do, jobs))
        seq_results = [f.result() for f in seq_futs]
    for scripts, (status, res, secs) in seq_results:
        if status != "ok":
            raise RuntimeError("C05 call-sequence worker %s after %.0fs: %r" % (status, secs, res))
        for kind, seq in scripts:
            ctx.case(("seq", kind, tuple(tuple(r) for r in seq)))
        ctx.monitor("c05.sequence_requests", res["requests"])
        for (obl, wit, msg) in res["violations"]:
            k = counts.get(obl, 0)
            counts[obl] = k + 1
            if k < CAP:
                ctx.violation(obl, wit, msg)
        if scripts:
            ctx.sample({"call_sequence": scripts[len(scripts) // 2], "worker_secs": round(secs, 1)})
    for (coordsys, tiles), (status, res, secs) in results:
        if status != "ok":
            raise RuntimeError("C05 worker %s after %.0fs: %r" % (status, secs, res))
        for (n, x, y) in tiles:
            ctx.case((coordsys, n, x, y))
        for (obl, wit, msg) in res["violations"]:
            k = counts.get(obl, 0)
            counts[obl] = k + 1
            if k < CAP:
                ctx.violation(obl, wit, msg)
        if tiles:
            ctx.sample({"coordsys": coordsys, "tile": tiles[-1], "pixels_checked": 65536, "worker_secs": round(secs, 1)})
    for obl, k in sorted(counts.items()):
        if k > CAP:
            ctx.note("%s: %d failing tiles met, first %d reported" % (obl, k, CAP))


def replay(obligation, witness):
    if "sequence" in witness:
        status, res, secs = call_isolated("rt.c05", "work_order", {"scripts": [[witness.get("kind", "replay"), witness["sequence"]]]}, 120,
                                          env=_ONE_THREAD)
        if status != "ok":
            return True, "could not replay the call sequence: %s %r" % (status, res)
        same = [r for r in res["violations"] if r[0] == obligation]
        if same:
            return False, same[0][2]
        if res["violations"]:
            return False, "recorded obligation holds now, but: %s" % res["violations"][0][2]
        return True, "every answer of the recorded call sequence is the documented pixel grid of its own request"
    from toasty import toast as T
    from toasty.pyramid import Pos
    if int(witness.get("n", 1)) == 0:
        res = _check_level0(T, witness["coordsys"])
        if res:
            return False, res[0][2]
        return True, "all 65536 pixels of the level-0 grid are the centres of the level-8 tiles"
    extra = [(int(witness["i"]), int(witness["j"]))] if "i" in witness and "j" in witness else []
    res = _check_one(T, Pos, witness["coordsys"], int(witness["n"]), int(witness["x"]), int(witness["y"]), 0, extra)
    same = [r for r in res if r[0] == obligation]
    if same:
        return False, same[0][2]
    if res:
        return False, "recorded obligation holds now, but: %s" % res[0][2]
    return True, "all 65536 pixels of the recorded tile satisfy the property"
