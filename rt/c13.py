"""C13 — bounded run-time driver: quadtree enumeration and tile counts.

Most of it is serial and in-process toasty code; the exhaustive depth-2 sweep is fanned out over
fresh interpreters with ``rt.common.call_isolated`` purely for speed (each chunk has its own
watchdog).  "The reported numbers ... equal the numbers of tiles actually visited by ... walks"
is also checked for walks with worker processes (2 and 3 workers): those run in fresh
interpreters through ``rt.c01_batch.dispatch`` (per-walk SIGALRM watchdog inside a
``call_isolated`` watchdog); the callback appends the position to a per-process O_APPEND log.

OBLIGATIONS (name — witness keys)
  rt/pos_children/relation        — pos, observed, expected
  rt/pos_parent/relation          — pos, observed, expected          (incl. ValueError for n < 1)
  rt/is_subtile/agrees            — deeper, shallower, observed, expected
                                    (parent/child/descendant relations agree with one another and
                                    with shift arithmetic; ValueError when deeper.n < shallower.n)
  rt/closed_forms/value           — depth, function, observed, expected  (depth2tiles, tiles_at_depth)
  rt/generate_pos/enumeration     — depth, problem, pos
  rt/generate_tiles_filtered/enumeration — shape keys + bottom_only, problem, pos
  rt/Pyramid._generator/enumeration      — shape keys + problem, pos
  rt/reduction/child_slots        — shape keys + pos, observed, expected
  rt/visit_leaves/leaf_set        — shape keys + missing, extra, duplicated
  rt/visit_leaves/tile_of_pos     — shape keys + pos, tile_pos
  rt/walk/op_set                  — shape keys + missing, extra, duplicated
  rt/walk/children_first          — shape keys + parent, child
  rt/walk_parallel/op_set         — shape keys + parallel, missing, extra, duplicated
                                    (callbacks of walk(parallel=w) vs the live non-leaf tiles of the statement)
  rt/walk_parallel/equals_serial  — shape keys + parallel, only_serial, only_parallel
                                    (multiset of callbacks of the same shape walked with 1 and with w workers)
  rt/walk_parallel/returns        — shape keys + parallel, watchdog_s
  rt/walk_parallel/raises         — shape keys + parallel, exception
  rt/counts/operations            — with key ``parallel``: count_operations() vs the number of callbacks
                                    of walk(parallel=w)   (keys as below + parallel)
  rt/counts/leaf | live | operations — shape keys + reported, visited, oracle, (repeat)
  rt/counts/sum_identity          — shape keys + leaf, live, operations
  rt/counts/closed_form           — shape keys + which, reported, closed_form
  rt/subpyramid/restriction       — shape keys + what, missing, extra
  rt/<call>/raises                — shape keys + call, exception     (any exception out of a call
                                    the property requires to succeed; <call> in count_leaf_tiles,
                                    count_live_tiles, count_operations, visit_leaves, walk,
                                    _generator, reduction, generate_tiles_filtered)
  shape keys = kind ('g' generic | 't' TOAST | 'f' filtered TOAST), depth, accept (list of
  [n,x,y] the filter accepts, None unless kind 'f'), apex ([n,x,y] | None), coordsys.
  Object history (rt/c13_history.py, which documents the clauses): ONE Pyramid object lives through a program of
  operations (the three counters, visit_leaves, walk, _generator, reduction, subpyramid(apex), depth changes); every answer
  is held against the statement for the configuration the object has at that moment, counters against the callbacks made
  under the same configuration, the tail of the program against freshly built objects of the final configuration, visits
  after subpyramid(apex) against the part below the apex of the visits the same object made before.
  rt/history_counts/leaf | live | operations | closed_form | sum_identity | equals_visits | restriction | same_as_fresh | repeatable | raises
  rt/history_iter/enumeration | same_as_fresh | repeatable | raises
  rt/history_visit_<serial|parallel>/every_item_once | tile_of_pos | same_as_fresh | repeatable | raises
  rt/history_walk_<serial|parallel>/callback_multiset | children_first | same_as_fresh | repeatable | raises
                                  — shape keys (as constructed), program, parallel, seed, delay_ms, step, op + clause keys
  A history program that does not finish inside the watchdog is counted as undecided (a note), not as a violation.

BOUNDS
  quick   : algebra on all positions n <= 6, is_subtile on all ordered pairs n <= 3 plus random
            deep pairs; generate_pos depth 0..6; shapes: every accept-set x every apex at depth
            <= 1, corner shapes depth 1..4, 2500 seeded depth-2 accept-sets in isolated chunks,
            random shapes depth <= 5.
            walks with 2 / 3 workers: at depth 2 all 3^4 assignments of {rejected, accepted without
            any child, accepted with all children} to the level-1 tiles; the filtered corner shapes
            of depth 2..4 (gap tile at every level incl. one level above the leaves, dead tile beside
            live siblings, three dead siblings, chains, ...) with both worker counts; 40 seeded
            arbitrary (non-hereditary) accept-sets of depth 2..4 with random apexes.
            Object history: ~830 directed serial programs at depth 2 (every first operation x every apex / repetition /
            depth change, on 5 pyramid kinds) + 300 seeded random serial programs to depth 4 + 16 programs whose visits /
            walks use 2 / 3 worker processes (thorough: directed at depth 2 and 3, 3000 random, 100 with worker processes).
  thorough: algebra n <= 8, pairs n <= 4; generate_pos depth 0..8; ALL 2^20 accept-sets at depth 2
            (no apex) + all 17^4 "canonical" accept-sets x every apex level; many more random
            shapes to depth 6.  Parallel walks: the 3^4 family with both worker counts, corner shapes
            to depth 5, 300 seeded canonical depth-2 accept-sets, 400 random shapes to depth 5.

TRUSTED: the oracle in rt/c13_quadtree.py (shift arithmetic on tuples); that the user filter is a
pure function of the tile position; Python ints; O_APPEND writes of one short line are atomic
(parallel walks: one log file per process anyway).
"""
import contextlib
import io
import os
import time
from concurrent.futures import ThreadPoolExecutor

from rt import c13_quadtree as Q
from rt import c13_history as H
from rt.common import call_isolated

HIST = ("history_",)

CAP = 5


class _Sink(object):
    """Collects violations (capped per obligation) either for ctx or for an isolated chunk."""

    def __init__(self):
        self.items = []
        self.counts = {}

    def add(self, obligation, witness, message):
        n = self.counts.get(obligation, 0)
        self.counts[obligation] = n + 1
        if n < CAP:
            self.items.append([obligation, witness, message])


def _quiet():
    return contextlib.redirect_stdout(io.StringIO())


def _t(pos):
    return (pos.n, pos.x, pos.y)


# ---------------------------------------------------------------------------------------------
# position algebra

def check_algebra(max_n, pair_n, rng, n_random, sink):
    from toasty.pyramid import Pos, pos_children, pos_parent, is_subtile, depth2tiles, tiles_at_depth
    ncase = 0
    for n in range(max_n + 1):
        for p in Q.level_positions(n):
            ncase += 1
            _algebra_one(p, sink, Pos, pos_children, pos_parent, is_subtile)
    # very deep positions (big coordinates)
    for _ in range(n_random):
        n = rng.randint(max_n + 1, 40)
        p = (n, rng.randrange(2 ** n), rng.randrange(2 ** n))
        ncase += 1
        _algebra_one(p, sink, Pos, pos_children, pos_parent, is_subtile)
        k = rng.randint(0, n)
        a = Q.anc(p, k)
        _subtile_pair(p, a, sink, Pos, is_subtile)
        b = (k, rng.randrange(2 ** k), rng.randrange(2 ** k))
        _subtile_pair(p, b, sink, Pos, is_subtile)
    # all ordered pairs to pair_n
    allp = Q.all_positions(pair_n)
    for a in allp:
        for b in allp:
            ncase += 1
            _subtile_pair(a, b, sink, Pos, is_subtile)
    for d in range(0, max_n + 3):
        for name, fn, exp in (("depth2tiles", depth2tiles, Q.T(d)), ("tiles_at_depth", tiles_at_depth, len(Q.level_positions(d)) if d <= 8 else (2 ** d) ** 2)):
            got = fn(d)
            if got != exp:
                sink.add("rt/closed_forms/value", {"depth": d, "function": name, "observed": got, "expected": exp},
                         "%s(%d) = %r, counting gives %r" % (name, d, got, exp))
    return ncase


def _algebra_one(p, sink, Pos, pos_children, pos_parent, is_subtile):
    pp = Pos(n=p[0], x=p[1], y=p[2])
    try:
        ch = pos_children(pp)
        got = [_t(c) for c in ch]
    except Exception as e:
        sink.add("rt/pos_children/relation", {"pos": list(p), "observed": repr(e), "expected": Q.children(p)}, "raised %r" % (e,))
        return
    exp = Q.children(p)
    if got != exp or not isinstance(ch, list):
        sink.add("rt/pos_children/relation", {"pos": list(p), "observed": got, "expected": exp},
                 "children of %s are %s (TL,TR,BL,BR), got %s" % (p, exp, got))
    for k, c in enumerate(exp):
        cp = Pos(n=c[0], x=c[1], y=c[2])
        try:
            par, ix, iy = pos_parent(cp)
            obs = [list(_t(par)), ix, iy]
        except Exception as e:
            obs = repr(e)
        e_ = [list(p), k % 2, k // 2]
        if obs != e_:
            sink.add("rt/pos_parent/relation", {"pos": list(c), "observed": obs, "expected": e_},
                     "parent of %s should be %s with indices (%d,%d), got %s" % (c, p, k % 2, k // 2, obs))
        _subtile_pair(c, p, sink, Pos, is_subtile)
    if p[0] == 0:
        try:
            r = pos_parent(pp)
            sink.add("rt/pos_parent/relation", {"pos": list(p), "observed": repr(r), "expected": "ValueError"},
                     "level-0 position has no parent but pos_parent returned %r" % (r,))
        except ValueError:
            pass
        except Exception as e:
            sink.add("rt/pos_parent/relation", {"pos": list(p), "observed": repr(e), "expected": "ValueError"}, "wrong exception %r" % (e,))


def _subtile_pair(a, b, sink, Pos, is_subtile):
    """is_subtile(a, b) against shift arithmetic; ValueError iff a is shallower than b."""
    A, B = Pos(n=a[0], x=a[1], y=a[2]), Pos(n=b[0], x=b[1], y=b[2])
    exp = "ValueError" if a[0] < b[0] else Q.below(a, b)
    try:
        got = is_subtile(A, B)
        if got is not True and got is not False:
            got = bool(got)
    except ValueError:
        got = "ValueError"
    except Exception as e:
        got = repr(e)
    if got != exp:
        sink.add("rt/is_subtile/agrees", {"deeper": list(a), "shallower": list(b), "observed": got, "expected": exp},
                 "is_subtile(%s, %s) = %r, ancestry by shifts says %r" % (a, b, got, exp))


# ---------------------------------------------------------------------------------------------
# enumeration

def _enum_problems(seq, scope, depth, allowed_extra=()):
    """seq: yielded positions in order.  Returns a list of (problem, pos).  Rules: every position of
    ``scope`` exactly once; nothing outside scope except ``allowed_extra`` (each at most once, after
    everything in scope); every in-scope child of a position earlier than the position."""
    probs = []
    index = {}
    last_scope_i = -1
    for i, p in enumerate(seq):
        if p in index:
            probs.append(("yielded twice", p))
            continue
        index[p] = i
        if p in scope:
            last_scope_i = i
        elif p not in allowed_extra:
            probs.append(("out of scope", p))
    for p in scope:
        if p not in index:
            probs.append(("never yielded", p))
    for p in allowed_extra:
        if p in index and index[p] < last_scope_i:
            probs.append(("ancestor of apex before the sub-pyramid finished", p))
    for p in scope:
        if p[0] < depth and p in index:
            for c in Q.children(p):
                if c in scope and c in index and index[c] > index[p]:
                    probs.append(("child %s after its parent" % (c,), p))
    return probs


def check_generate_pos(depth, sink):
    from toasty.pyramid import generate_pos
    try:
        seq = [_t(p) for p in generate_pos(depth)]
    except Exception as e:
        sink.add("rt/generate_pos/enumeration", {"depth": depth, "problem": "raised " + repr(e), "pos": None}, repr(e))
        return
    scope = set(Q.all_positions(depth))
    probs = _enum_problems(seq, scope, depth)
    if len(seq) != Q.T(depth) and not probs:
        probs.append(("length %d != %d" % (len(seq), Q.T(depth)), None))
    for prob, p in probs[:CAP]:
        sink.add("rt/generate_pos/enumeration", {"depth": depth, "problem": prob, "pos": list(p) if p else None},
                 "generate_pos(%d): %s %s" % (depth, prob, p))


# ---------------------------------------------------------------------------------------------
# one pyramid shape

def observe(kind, depth, accept, apex, coordsys, W, sink, deep=True):
    """Run the real code on one shape; report everything that contradicts the oracle.  Returns
    (expect, observed dict) for the metamorphic sub-pyramid comparison."""
    exp = Q.Expect(kind, depth, accept, apex)
    obs = {}

    def fail(call, e):
        w = dict(W)
        w.update(call=call, exception=repr(e))
        sink.add("rt/%s/raises" % call, w, "%s raised %r on a shape the property covers" % (call, e))

    def mk():
        return Q.make_pyramid(kind, depth, accept, apex, coordsys)

    try:
        pyr = mk()
    except Exception as e:
        fail("subpyramid", e)
        return exp, obs

    counts = {}
    for rnd in ((0, 1) if deep else (0,)):
        for name in ("count_leaf_tiles", "count_live_tiles", "count_operations"):
            try:
                with _quiet():
                    counts[(name, rnd)] = getattr(pyr, name)()
            except Exception as e:
                fail(name, e)
        if rnd == 0:
            # visits between the two rounds of counting, on the same instance
            leaves = []
            try:
                with _quiet():
                    pyr.visit_leaves(lambda pos, tile: leaves.append((_t(pos), tile)), parallel=1)
                obs["leaves"] = leaves
            except Exception as e:
                fail("visit_leaves", e)
            ops = []
            try:
                with _quiet():
                    pyr.walk(lambda pos: ops.append(_t(pos)), parallel=1)
                obs["ops"] = ops
            except Exception as e:
                fail("walk", e)

    # leaf visits
    if "leaves" in obs:
        got = [p for p, _ in obs["leaves"]]
        _multiset(sink, "rt/visit_leaves/leaf_set", W, got, exp.leaves, "visit_leaves")
        for p, tile in obs["leaves"]:
            want_tile = kind != "g" and depth >= 1
            if want_tile:
                tp = None
                try:
                    tp = _t(tile.pos)
                except Exception:
                    pass
                if tp != p:
                    w = dict(W)
                    w.update(pos=list(p), tile_pos=list(tp) if tp else repr(tile))
                    sink.add("rt/visit_leaves/tile_of_pos", w, "leaf %s delivered with tile %r" % (p, tile))
            elif tile is not None:
                w = dict(W)
                w.update(pos=list(p), tile_pos=repr(tile))
                sink.add("rt/visit_leaves/tile_of_pos", w, "leaf %s of a pyramid without tile geometry delivered with %r" % (p, tile))
    # walk
    if "ops" in obs:
        got = obs["ops"]
        _multiset(sink, "rt/walk/op_set", W, got, exp.ops, "walk")
        idx = {}
        for i, p in enumerate(got):
            idx.setdefault(p, i)
        for p in got:
            for c in exp.live_nonleaf_children(p):
                if c in idx and idx[c] > idx[p]:
                    w = dict(W)
                    w.update(parent=list(p), child=list(c))
                    sink.add("rt/walk/children_first", w, "callback for %s ran before its live child %s" % (p, c))
    # counters
    na = exp.apex[0]
    spec = (("leaf", "count_leaf_tiles", len(exp.leaves), len(obs["leaves"]) if "leaves" in obs else None, 4 ** (depth - na)),
            ("live", "count_live_tiles", len(exp.live), None, Q.T(depth - na)),
            ("operations", "count_operations", len(exp.ops), len(obs["ops"]) if "ops" in obs else None, Q.T(depth - na - 1)))
    rep = {}
    for short, name, oracle, visited, closed in spec:
        for rnd in (0, 1):
            if (name, rnd) not in counts:
                continue
            c = counts[(name, rnd)]
            rep[short] = c
            if c != oracle or (visited is not None and c != visited):
                w = dict(W)
                w.update(reported=c, visited=visited, oracle=oracle, repeat=rnd)
                sink.add("rt/counts/%s" % short, w, "%s() = %r; callbacks observed %r; statement gives %r" % (name, c, visited, oracle))
            if kind != "f" and c != closed:
                w = dict(W)
                w.update(which=short, reported=c, closed_form=closed)
                sink.add("rt/counts/closed_form", w, "%s() = %r without a filter, closed form %r" % (name, c, closed))
    if len(rep) == 3 and rep["operations"] + rep["leaf"] != rep["live"]:
        w = dict(W)
        w.update(rep)
        sink.add("rt/counts/sum_identity", w, "operations %(operations)r + leaves %(leaf)r != live %(live)r" % rep)
    obs["counts"] = rep

    if not deep:
        return exp, obs

    # the generator itself (non-public hook; optional)
    p2 = mk()
    if hasattr(p2, "_generator"):
        try:
            items = list(p2._generator())
            seq = [_t(pos) for pos, _ in items]
            extra = set(Q.anc(exp.apex, k) for k in range(exp.apex[0]))
            for prob, p in _enum_problems(seq, exp.scope, depth, extra)[:CAP]:
                w = dict(W)
                w.update(problem=prob, pos=list(p) if p else None)
                sink.add("rt/Pyramid._generator/enumeration", w, "_generator: %s %s" % (prob, p))
            for pos, tile in items:
                p = _t(pos)
                ok = (tile is None) if (kind == "g" or p[0] == 0) else (tile is not None and _t(tile.pos) == p)
                if not ok:
                    w = dict(W)
                    w.update(problem="tile does not belong to position", pos=list(p))
                    sink.add("rt/Pyramid._generator/enumeration", w, "_generator paired %s with %r" % (p, tile))
        except Exception as e:
            fail("_generator", e)
    # reduction iterator: child slots hold exactly the values set for the yielded children
    p3 = mk()
    if hasattr(p3, "_make_iter_reducer"):
        try:
            riter = p3._make_iter_reducer(default_value=None)
            seen = set()
            for pos, _tile, is_leaf, data in riter:
                p = _t(pos)
                want = [list(c) if (c in exp.scope and p[0] < depth) else None for c in Q.children(p)]
                gotd = [list(d) if d is not None else None for d in data]
                if gotd != want or bool(is_leaf) != (p[0] == depth):
                    w = dict(W)
                    w.update(pos=list(p), observed=gotd, expected=want)
                    sink.add("rt/reduction/child_slots", w, "reduction at %s: child data %s, expected %s (is_leaf=%r)" % (p, gotd, want, is_leaf))
                seen.add(p)
                riter.set_data(p)
            res = riter.result()
            want = exp.apex if exp.apex in exp.scope else None
            if (tuple(res) if res is not None else None) != want:
                w = dict(W)
                w.update(pos=list(exp.apex), observed=repr(res), expected=repr(want))
                sink.add("rt/reduction/child_slots", w, "reduction result %r, expected %r" % (res, want))
            if seen != exp.scope:
                w = dict(W)
                w.update(pos=None, observed=sorted(seen - exp.scope)[:6], expected=sorted(exp.scope - seen)[:6])
                sink.add("rt/reduction/child_slots", w, "reduction iterated over a different tile set than the sub-pyramid scope")
        except Exception as e:
            fail("reduction", e)
    # public TOAST generators (no apex notion there)
    if kind in "tf" and apex is None and depth >= 1:
        from toasty import toast
        acc = frozenset(exp.accept)
        flt = (lambda t: True) if kind == "t" else (lambda t: _t(t.pos) in acc)
        full_scope = set(p for p in exp.scope if p[0] >= 1)
        for bottom_only in (False, True):
            try:
                seq = [_t(t.pos) for t in toast.generate_tiles_filtered(depth, flt, bottom_only=bottom_only)]
                scope = set(p for p in full_scope if p[0] == depth) if bottom_only else full_scope
                for prob, p in _enum_problems(seq, scope, depth)[:CAP]:
                    w = dict(W)
                    w.update(problem=prob, pos=list(p) if p else None, bottom_only=bottom_only)
                    sink.add("rt/generate_tiles_filtered/enumeration", w, "generate_tiles_filtered(bottom_only=%r): %s %s" % (bottom_only, prob, p))
            except Exception as e:
                fail("generate_tiles_filtered", e)
    return exp, obs


def _multiset(sink, obligation, W, got, want, what):
    seen = {}
    for p in got:
        seen[p] = seen.get(p, 0) + 1
    missing = sorted(p for p in want if p not in seen)
    extra = sorted(p for p in seen if p not in want)
    dup = sorted(p for p, k in seen.items() if k > 1)
    if missing or extra or dup:
        w = dict(W)
        w.update(missing=[list(p) for p in missing[:8]], extra=[list(p) for p in extra[:8]], duplicated=[list(p) for p in dup[:8]])
        sink.add(obligation, w, "%s: %d tiles expected, %d callbacks; missing %s extra %s duplicated %s" % (
            what, len(want), len(got), missing[:4], extra[:4], dup[:4]))


def check_family(kind, depth, accept, apexes, coordsys, sink, deep=True):
    """One (kind, depth, accept) with the full pyramid and each apex; the apex results must be the
    part of the full result below the apex.  Returns list of (apex, nontrivial)."""
    done = []
    W0 = Q.shape_witness(kind, depth, accept, None, coordsys)
    _e0, full = observe(kind, depth, accept, None, coordsys, W0, sink, deep)
    done.append((None, len(_e0.leaves) > 0))
    for apex in apexes:
        if apex is None:
            continue
        W = Q.shape_witness(kind, depth, accept, apex, coordsys)
        e, sub = observe(kind, depth, accept, apex, coordsys, W, sink, deep)
        done.append((apex, len(e.leaves) > 0))
        for what, key in (("leaves", "leaves"), ("walk callbacks", "ops")):
            if key in full and key in sub:
                f = [x[0] if key == "leaves" else x for x in full[key]]
                s = [x[0] if key == "leaves" else x for x in sub[key]]
                part = sorted(p for p in f if Q.below(p, apex))
                if sorted(s) != part:
                    w = dict(W)
                    w.update(what=what, missing=[list(p) for p in part if p not in s][:8], extra=[list(p) for p in s if p not in part][:8])
                    sink.add("rt/subpyramid/restriction", w, "%s of the sub-pyramid at %s differ from the part of the full result below it" % (what, apex))
    return done


# ---------------------------------------------------------------------------------------------
# depth-2 sweeps (isolated chunks)

_POS2 = Q.all_positions(2, 1)          # 4 + 16 positions, fixed order


def mask_to_accept(mask):
    return [p for i, p in enumerate(_POS2) if (mask >> i) & 1]


def canonical_mask(idx):
    """idx in [0, 17^4): per level-1 quadrant either rejected (0) or accepted with one of the 16
    subsets of its children (1..16)."""
    acc = []
    for q in range(4):
        v = idx % 17
        idx //= 17
        if v:
            qp = (1, q % 2, q // 2)
            acc.append(qp)
            ch = Q.children(qp)
            for k in range(4):
                if ((v - 1) >> k) & 1:
                    acc.append(ch[k])
    m = 0
    for i, p in enumerate(_POS2):
        if p in acc:
            m |= 1 << i
    return m


_APEX2 = [None] + Q.all_positions(2)


def chunk_depth2(masks=None, lo=None, hi=None, canonical=False, apex_mode="none", deep=False):
    """Run depth-2 filtered shapes.  masks: explicit list, or range lo..hi of masks (or of canonical
    indices).  apex_mode: 'none' | 'all' | 'rot' (one apex per mask, rotating through all 22)."""
    sink = _Sink()
    cases = []
    if masks is None:
        masks = range(lo, hi)
    for j, m in enumerate(masks):
        mask = canonical_mask(m) if canonical else m
        acc = mask_to_accept(mask)
        if apex_mode == "all":
            apexes = _APEX2[1:]
        elif apex_mode == "rot":
            apexes = [_APEX2[1 + (m % (len(_APEX2) - 1))]]
        else:
            apexes = []
        for apex, nt in check_family("f", 2, acc, apexes, "astronomical", sink, deep=deep):
            cases.append([mask, list(apex) if apex else None, nt])
    return {"cases": cases, "violations": sink.items, "counts": sink.counts}


# ---------------------------------------------------------------------------------------------
# walks with worker processes (isolated side: par_walk_case; driver side: eval_par_walk)

PAR_WORKERS = (2, 3)
PAR_WATCHDOG = 40


def par_walk_case(case):
    """One shape: the three counters, a serial walk and a walk with ``case['parallel']`` worker
    processes (fresh pyramid instance each).  JSON-able result.  (A case with a "program" is an
    object-history case, see rt/c13_history.py.)"""
    if "program" in case:
        return H.run_history(case)
    logdir = os.path.join(case["_dir"], "log_%s" % case["id"])
    os.makedirs(logdir, exist_ok=True)
    kind, depth, acc, apex, cs = Q.shape_from_witness(case)
    out = {"counts": {}, "serial": None, "parallel": None, "exception": None, "exception_serial": None}
    pyr = Q.make_pyramid(kind, depth, acc, apex, cs)
    for name in ("count_leaf_tiles", "count_live_tiles", "count_operations"):
        try:
            with _quiet():
                out["counts"][name] = getattr(pyr, name)()
        except Exception as e:
            out["counts"][name] = repr(e)
    ser = []
    try:
        with _quiet():
            Q.make_pyramid(kind, depth, acc, apex, cs).walk(lambda pos: ser.append([pos.n, pos.x, pos.y]), parallel=1)
        out["serial"] = ser
    except Exception as e:
        out["exception_serial"] = repr(e)
    fds = {}

    def cb(pos, *_rest):
        pid = os.getpid()
        fd = fds.get(pid)
        if fd is None:
            fd = os.open(os.path.join(logdir, "%d.log" % pid), os.O_WRONLY | os.O_CREAT | os.O_APPEND, 0o644)
            fds.clear()
            fds[pid] = fd
        os.write(fd, ("%d %d %d\n" % (pos.n, pos.x, pos.y)).encode())

    t0 = time.monotonic()
    try:
        with _quiet():
            Q.make_pyramid(kind, depth, acc, apex, cs).walk(cb, parallel=case["parallel"])
    except Exception as e:
        out["exception"] = repr(e)
    out["secs"] = round(time.monotonic() - t0, 3)
    got = []
    for name in sorted(os.listdir(logdir)):
        with open(os.path.join(logdir, name)) as f:
            for line in f:
                parts = line.split()
                if len(parts) == 3:
                    got.append([int(v) for v in parts])
    out["parallel"] = got
    out["processes"] = len(os.listdir(logdir))
    return out


def _counted(seq):
    d = {}
    for p in seq:
        p = tuple(p)
        d[p] = d.get(p, 0) + 1
    return d


def eval_par_walk(case, outcome, sink):
    kind, depth, acc, apex, cs = Q.shape_from_witness(case)
    W = Q.shape_witness(kind, depth, acc, apex, cs, parallel=case["parallel"])
    if outcome["status"] == "timeout":
        w = dict(W)
        w.update(watchdog_s=PAR_WATCHDOG)
        sink.add("rt/walk_parallel/returns", w, "walk(parallel=%d) had not returned after %s s" % (case["parallel"], outcome.get("secs")))
        return
    if outcome["status"] != "done":
        return
    res = outcome["result"]
    if res["exception"]:
        w = dict(W)
        w.update(exception=res["exception"])
        sink.add("rt/walk_parallel/raises", w, "walk(parallel=%d) raised %s although the callback cannot raise" % (case["parallel"], res["exception"]))
        return
    exp = Q.Expect(kind, depth, acc, apex)
    got = [tuple(p) for p in res["parallel"]]
    _multiset(sink, "rt/walk_parallel/op_set", W, got, exp.ops, "walk(parallel=%d)" % case["parallel"])
    c = res["counts"].get("count_operations")
    if c != len(got) or c != len(exp.ops):
        w = dict(W)
        w.update(reported=c, visited=len(got), oracle=len(exp.ops), repeat=0)
        sink.add("rt/counts/operations", w, "count_operations() = %r; walk(parallel=%d) made %d callbacks; statement gives %d" % (
            c, case["parallel"], len(got), len(exp.ops)))
    if res["serial"] is not None:
        a, b = _counted(res["serial"]), _counted(got)
        if a != b:
            only_s = sorted(p for p in a if a[p] > b.get(p, 0))
            only_p = sorted(p for p in b if b[p] > a.get(p, 0))
            w = dict(W)
            w.update(only_serial=[list(p) for p in only_s[:8]], only_parallel=[list(p) for p in only_p[:8]])
            sink.add("rt/walk_parallel/equals_serial", w, "walk(parallel=1) made %d callbacks, walk(parallel=%d) %d; only serial %s, only parallel %s" % (
                len(res["serial"]), case["parallel"], len(got), only_s[:4], only_p[:4]))


def three_state_shapes():
    """Depth 2: each level-1 tile is rejected (0), accepted without any child (1, a tile one level
    above the leaves that the filter accepts but none of whose children) or accepted with all its
    children (2): 3^4 accept-sets."""
    out = []
    for code in range(81):
        acc = []
        c = code
        for q in range(4):
            st = c % 3
            c //= 3
            qp = (1, q % 2, q // 2)
            if st:
                acc.append(qp)
            if st == 2:
                acc.extend(Q.children(qp))
        out.append(sorted(acc))
    return out


def build_par_cases(rng, thorough):
    cases = []

    def add(kind, depth, acc, apex, par, cs="astronomical"):
        c = Q.shape_witness(kind, depth, acc, apex, cs)
        c["parallel"] = par
        c["id"] = len(cases)
        cases.append(c)

    for i, acc in enumerate(three_state_shapes()):
        for par in (PAR_WORKERS if thorough else (PAR_WORKERS[i % 2],)):
            add("f", 2, acc, None, par)
    dmax = 5 if thorough else 4
    for depth in range(2, dmax + 1):
        for kind, d, acc, apex in Q.corner_shapes(depth):
            if kind != "f":
                continue
            for par in PAR_WORKERS:
                add(kind, d, acc, apex, par)
    n_canon, n_rand = (300, 400) if thorough else (0, 40)
    for i in range(n_canon):
        m = canonical_mask(rng.randrange(17 ** 4))
        add("f", 2, mask_to_accept(m), _APEX2[i % len(_APEX2)] if i % 3 == 0 else None, PAR_WORKERS[i % 2])
    for i in range(n_rand):
        depth = rng.choice([2, 3, 3, 4] if not thorough else [2, 3, 3, 4, 4, 5])
        acc = Q.random_accept(rng, depth)
        add("f", depth, acc, Q.random_apex(rng, depth, acc, "f"), PAR_WORKERS[i % 2], rng.choice(["astronomical", "planetary"]))
    bound = ("walks with worker processes (%s workers, per-walk watchdog %d s): depth 2: all 3^4 assignments of {rejected, accepted "
             "without any child, accepted with all children} to the level-1 tiles (%s); filtered corner shapes of depth 2..%d "
             "(tile accepted but none of its children at each level incl. one level above the leaves, dead tile beside live "
             "siblings, three dead siblings, missing quadrant / leaf, chains, empty / full, apex variants) with both worker "
             "counts; %d seeded canonical depth-2 accept-sets; %d seeded arbitrary accept-sets of depth 2..%d with random "
             "apexes; each compared with the oracle, count_operations and the serial walk of the same shape"
             % ("/".join(str(w) for w in PAR_WORKERS), PAR_WATCHDOG, "both worker counts" if thorough else "alternating worker counts",
                dmax, n_canon, n_rand, 5 if thorough else 4))
    return cases, bound


# ---------------------------------------------------------------------------------------------

def _flush(ctx, sink, reported):
    for obl, w, msg in sink.items:
        n = reported.get(obl, 0)
        if n < CAP:
            reported[obl] = n + 1
            ctx.violation(obl, w, msg)
    sink.items = []


def run(ctx):
    rng = ctx.rng
    thorough = ctx.thorough
    reported = {}
    sink = _Sink()
    t0 = time.time()

    # 1. algebra
    max_n, pair_n, n_rand = (8, 4, 3000) if thorough else (6, 3, 400)
    n = check_algebra(max_n, pair_n, rng, n_rand, sink)
    for i in range(n):
        ctx.case(("alg", i))
    ctx.bound("position algebra: every position with n <= %d (children, parent, round trips), every ordered pair of positions "
              "with n <= %d for is_subtile, %d seeded positions with %d < n <= 40" % (max_n, pair_n, n_rand, max_n))
    _flush(ctx, sink, reported)

    # 2. generate_pos
    gp_max = 8 if thorough else 6
    for d in range(gp_max + 1):
        check_generate_pos(d, sink)
        ctx.case(("generate_pos", d))
    ctx.bound("generate_pos: depth 0..%d, full check of the sequence" % gp_max)
    _flush(ctx, sink, reported)

    # 3. launch isolated depth-2 sweeps in the background
    jobs = []
    if thorough:
        step = 1 << 14
        for lo in range(0, 1 << 20, step):
            jobs.append(dict(lo=lo, hi=lo + step, canonical=False, apex_mode="none", deep=False))
        cstep = 3000
        for lo in range(0, 17 ** 4, cstep):
            jobs.append(dict(lo=lo, hi=min(17 ** 4, lo + cstep), canonical=True, apex_mode="rot", deep=True))
        ctx.bound("depth 2, filtered TOAST: ALL 2^20 accept-sets over the 20 positions of levels 1-2 without apex (counts, leaf "
                  "visits, walk); all 17^4 canonical accept-sets (children of rejected tiles dropped) once more with the deep "
                  "checks and one apex each, rotating through all 21 apexes")
    else:
        masks = [rng.getrandbits(20) for _ in range(1800)]
        masks += [canonical_mask(rng.randrange(17 ** 4)) for _ in range(700)]
        per = 250
        for i in range(0, len(masks), per):
            jobs.append(dict(masks=masks[i:i + per], canonical=False, apex_mode="rot", deep=True))
        ctx.bound("depth 2, filtered TOAST: %d seeded accept-sets (1800 uniform over all 2^20 subsets, 700 canonical), each "
                  "without apex and with one apex rotating through all 21" % len(masks))
    deadline = t0 + (530 if thorough else 40)

    def run_chunk(j):
        left = deadline - time.time()
        if left < 5:
            return "not started", None, 0.0
        return call_isolated("rt.c13", "chunk_depth2", j, left)

    pool = ThreadPoolExecutor(max_workers=14)
    futs = [pool.submit(run_chunk, j) for j in jobs]

    # 3b. walks with worker processes, in the background as well (they mostly sleep in queue time-outs)
    from rt import c01_batch as B
    par_cases, par_bound = build_par_cases(rng, thorough)
    ctx.bound(par_bound)
    hrng = H.derived_rng(ctx.seed, "c13")
    hpar, hpbound = H.parallel_cases(hrng, "counts", thorough, 100 if thorough else 16)
    for i, hc in enumerate(hpar):
        hc["id"] = len(par_cases) + i
    ctx.bound(hpbound)
    par_batches = [[dict(c) for c in par_cases[i:i + 12]] for i in range(0, len(par_cases), 12)]
    par_batches += [[dict(c) for c in hpar[i:i + 2]] for i in range(0, len(hpar), 2)]
    par_pool = ThreadPoolExecutor(max_workers=1)
    par_fut = par_pool.submit(B.dispatch, "rt.c13", "par_walk_case", None, os.path.join(ctx.workdir, "par"),
                              PAR_WATCHDOG, 12, 16, CAP, 2.0, par_batches)

    # 4. in-process: exhaustive depth <= 1, corner shapes, random shapes
    def fam(kind, depth, accept, apexes, coordsys="astronomical"):
        for apex, nt in check_family(kind, depth, accept, apexes, coordsys, sink):
            ctx.case(Q.shape_key(kind, depth, accept, apex, coordsys), nontrivial=nt)
        if len(ctx.samples) < 3:
            ctx.sample(Q.shape_witness(kind, depth, accept, apexes[-1] if apexes else None, coordsys))

    for cs in ("astronomical", "planetary"):
        for kind in "gt":
            for depth in (0, 1, 2):
                fam(kind, depth, [], Q.all_positions(depth), cs)
        fam("f", 0, [], [(0, 0, 0)], cs)
        for mask in range(16):
            acc = [p for i, p in enumerate(Q.level_positions(1)) if (mask >> i) & 1]
            fam("f", 1, acc, Q.all_positions(1), cs)
    ctx.bound("depth <= 1: every accept-set x every apex (incl. apex at the pyramid depth), generic / TOAST / filtered, both "
              "coordinate systems; generic and unfiltered TOAST at depth 2 with every apex")
    for depth in range(1, (5 if thorough else 4) + 1):
        for kind, d, acc, apex in Q.corner_shapes(depth):
            fam(kind, d, acc, [apex] if apex else [])
    ctx.bound("corner shapes at depth 1..%d: filter accepting a tile but none of its children at each level, one quadrant / one "
              "leaf removed, single root-to-leaf chains, empty and full filters, apex at depth 0 / 1 / pyramid depth, filter "
              "disjoint from the sub-pyramid, rejected ancestor of the apex" % (5 if thorough else 4))
    _flush(ctx, sink, reported)

    n_random = 800 if thorough else 260
    max_depth = 6 if thorough else 5
    budget = (420 if thorough else 30)          # safety net only; the counts above fit well inside
    done = 0
    for i in range(n_random):
        if time.time() - t0 > budget:
            break
        depth = rng.choice([2, 3, 3, 4, 4, 5] if not thorough else [2, 3, 3, 4, 4, 5, 5, 6])
        depth = min(depth, max_depth)
        kind = rng.choice("gtfff")
        acc = Q.random_accept(rng, depth) if kind == "f" else []
        if kind == "f" and depth >= 5:
            # keep deep pyramids mostly alive near the top so that deep levels are reached
            top = set(p for p in Q.all_positions(2, 1))
            acc = list(set(acc) | set(p for p in top if rng.random() < 0.8))
        apexes = [Q.random_apex(rng, depth, acc, kind) for _ in range(2)]
        fam(kind, depth, acc, [a for a in apexes if a is not None], rng.choice(["astronomical", "planetary"]))
        done += 1
    ctx.bound("random shapes: %d seeded (kind, depth 2..%d, arbitrary accept-set with keep probability 0.35..0.95, up to 2 "
              "apexes incl. apex level = depth) families" % (done, max_depth))
    _flush(ctx, sink, reported)

    # 4b. (own seeded generator, so that the case streams above stay as they were) object history, serial, in-process
    hcases, hbound = H.serial_cases(hrng, "counts", thorough, 3000 if thorough else 300)
    for hc in hcases:
        ctx.case(H.case_key(hc), nontrivial=H.nontrivial(hc))
        for obl, w, msg in H.findings(hc, H.run_history(hc), HIST):
            sink.add(obl, w, msg)
    ctx.bound(hbound)
    _flush(ctx, sink, reported)

    # 5. collect the sweeps
    unfinished = []
    for fut, job in zip(futs, jobs):
        status, res, secs = fut.result()
        if status == "crash":
            raise RuntimeError("depth-2 sweep chunk %r crashed: %r" % ({k: v for k, v in job.items() if k != "masks"}, res))
        if status != "ok":
            unfinished.append({k: v for k, v in job.items() if k != "masks"})
            continue
        for mask, apex, nt in res["cases"]:
            ctx.case(("d2", mask, tuple(apex) if apex else None), nontrivial=nt)
        for obl, w, msg in res["violations"]:
            sink.add(obl, w, msg)
    pool.shutdown()
    if unfinished:
        ctx.note("depth-2 sweep: %d of %d chunks did not finish inside the time budget on this machine and are NOT covered: %s" % (
            len(unfinished), len(jobs), unfinished[:6]))
    _flush(ctx, sink, reported)
    # 6. collect the walks with worker processes
    par_results = par_fut.result()
    par_pool.shutdown()
    skipped = 0
    nproc = 0
    for c in par_cases:
        o = par_results.get(c["id"], {"status": "skipped"})
        if o["status"] == "skipped":
            skipped += 1
            continue
        kind, depth, acc, apex, cs = Q.shape_from_witness(c)
        nops = len(Q.Expect(kind, depth, acc, apex).ops)
        ctx.case(("parwalk", c["parallel"]) + Q.shape_key(kind, depth, acc, apex, cs), nontrivial=nops > 0)
        eval_par_walk(c, o, sink)
        if o["status"] == "done":
            nproc = max(nproc, o["result"].get("processes", 0))
    ctx.monitor("parallel_walk_worker_processes_seen_in_one_walk", nproc)
    undecided = 0
    for hc in hpar:
        o = par_results.get(hc["id"], {"status": "skipped"})
        if o["status"] != "done":
            undecided += 1
            continue
        ctx.case(H.case_key(hc), nontrivial=H.nontrivial(hc))
        for obl, w, msg in H.findings(hc, o["result"], HIST):
            sink.add(obl, w, msg)
    if undecided:
        ctx.note("%d object-history programs with worker processes did not finish inside the watchdog (or were not run): undecided" % undecided)
    if skipped:
        ctx.note("%d parallel walks not run: %d walks had already hit the watchdog" % (skipped, CAP))
    _flush(ctx, sink, reported)
    ctx.assume("tile filters used by the driver are pure functions of the tile position")
    ctx.assume("independent oracle rt/c13_quadtree.py: ancestry by integer shifts on (n,x,y) tuples")
    for obl, n in sorted(sink.counts.items()):
        if n > CAP:
            ctx.note("%s: %d failing checks met in-process, first %d reported" % (obl, n, CAP))


def replay(obligation, witness):
    sink = _Sink()
    w = witness
    if w.get("program") is not None:
        return H.replay(obligation, w, HIST)
    if obligation.startswith("rt/pos_") or obligation.startswith("rt/is_subtile"):
        from toasty.pyramid import Pos, pos_children, pos_parent, is_subtile
        if "deeper" in w:
            _subtile_pair(tuple(w["deeper"]), tuple(w["shallower"]), sink, Pos, is_subtile)
        else:
            p = tuple(w["pos"])
            _algebra_one(p, sink, Pos, pos_children, pos_parent, is_subtile)
            if p[0] > 0:
                _algebra_one(Q.anc(p, p[0] - 1), sink, Pos, pos_children, pos_parent, is_subtile)
    elif obligation == "rt/closed_forms/value":
        from toasty.pyramid import depth2tiles, tiles_at_depth
        d = w["depth"]
        if depth2tiles(d) != Q.T(d) or tiles_at_depth(d) != (2 ** d) ** 2:
            sink.add(obligation, w, "closed form differs at depth %d" % d)
    elif obligation == "rt/generate_pos/enumeration":
        check_generate_pos(w["depth"], sink)
    elif w.get("parallel"):
        import shutil
        import tempfile
        from rt import c01_batch as B
        kind, depth, acc, apex, cs = Q.shape_from_witness(w)
        work = tempfile.mkdtemp(prefix="c13_replay_")
        try:
            for attempt in range(2):
                case = Q.shape_witness(kind, depth, acc, apex, cs, parallel=int(w["parallel"]), id=attempt)
                res = B.dispatch("rt.c13", "par_walk_case", [case], os.path.join(work, "r%d" % attempt), PAR_WATCHDOG, batch_size=1, max_workers=1)
                eval_par_walk(case, res[attempt], sink)
                if sink.items:
                    break
        finally:
            shutil.rmtree(work, ignore_errors=True)
    else:
        kind, depth, acc, apex, cs = Q.shape_from_witness(w)
        check_family(kind, depth, acc, [apex] if apex else [], cs, sink)
    hits = [m for o, _w, m in sink.items if o == obligation]
    if hits:
        return False, hits[0]
    other = [o for o, _w, _m in sink.items]
    return True, "obligation %s holds on this input now%s" % (obligation, (" (other obligations fail: %s)" % sorted(set(other))) if other else "")
