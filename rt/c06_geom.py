"""Independent TOAST geometry used as the oracle of the C06 / C07 bounded drivers.

Written from the *description* of the projection (toasty/toast.py module docstring, McGlynn+ 2019
fig. 3, and the statement of C04/C05), with unit vectors instead of the lon/lat midpoint formula
of ``_libtoasty``:

* the sphere is the octahedron unfolded onto a square: north pole at the centre, south pole at
  the four corners, the equator is the diamond joining the mid-points of the sides; in the
  astronomical system lon=0 runs from the centre to the right, lon=90 deg from the centre up,
  counter-clockwise; the planetary system is rotated by 180 deg in longitude;
* every quad is split in four by the great-circle mid-points of its sides and of the diagonal
  that continues the octahedron edge of its level-1 ancestor (the equator edge);
* tile (n, x, y) is the cell in column x, row y (row 0 at the top) of the 2^n x 2^n grid;
* pixel (i, j) of a tile (row i from the top, display orientation) is the centre of the cell
  (row i, column j) of the 256 x 256 grid of its descendants eight levels deeper, the centre of a
  cell being the mid-point of its diagonal.

Nothing of toasty is imported here.
"""
import numpy as np

TWOPI = 2 * np.pi


def _lonlat_to_vec(lon_deg, lat_deg):
    lon = np.radians(lon_deg)
    lat = np.radians(lat_deg)
    return np.array([np.cos(lat) * np.cos(lon), np.cos(lat) * np.sin(lon), np.sin(lat)])


def _norm(v):
    return v / np.sqrt((v * v).sum(axis=-1, keepdims=True))


def level1_grid(planetary=False):
    """3x3 grid of unit vectors of the whole square: [row][col], row 0 = top."""
    off = 180.0 if planetary else 0.0
    S = _lonlat_to_vec(0, -90)
    N = _lonlat_to_vec(0, 90)
    right = _lonlat_to_vec(0 + off, 0)
    top = _lonlat_to_vec(90 + off, 0)
    left = _lonlat_to_vec(180 + off, 0)
    bottom = _lonlat_to_vec(270 + off, 0)
    return np.array([[S, top, S], [left, N, right], [S, bottom, S]])


def level1_quad(x, y, planetary=False):
    """Corner vectors (2,2,3) [row][col] of level-1 tile (1,x,y) and its diagonal flag.
    ``rising`` is True when the octahedron (equator) edge joins lower-left to upper-right."""
    g = level1_grid(planetary)
    q = g[y:y + 2, x:x + 2].copy()
    # equator edge joins the two mid-side points of the quadrant: for the upper-left and lower-right
    # quadrants these are (upper-right, lower-left) corners of the quad -> rising diagonal.
    rising = (x == y)
    return q, rising


def refine(grid, rising):
    """One subdivision step of an (m+1)x(m+1) vertex grid -> (2m+1)x(2m+1)."""
    m = grid.shape[0] - 1
    out = np.empty((2 * m + 1, 2 * m + 1, 3))
    out[::2, ::2] = grid
    out[::2, 1::2] = _norm(grid[:, :-1] + grid[:, 1:])       # mid-points of horizontal sides
    out[1::2, ::2] = _norm(grid[:-1, :] + grid[1:, :])       # mid-points of vertical sides
    if rising:
        out[1::2, 1::2] = _norm(grid[1:, :-1] + grid[:-1, 1:])   # lower-left + upper-right
    else:
        out[1::2, 1::2] = _norm(grid[:-1, :-1] + grid[1:, 1:])   # upper-left + lower-right
    return out


def tile_quad(n, x, y, planetary=False):
    """Corner vectors (2,2,3) of tile (n,x,y), n >= 1, and its diagonal flag."""
    if n < 1:
        raise ValueError("level-0 has no single quad")
    x1 = (x >> (n - 1)) & 1
    y1 = (y >> (n - 1)) & 1
    q, rising = level1_quad(x1, y1, planetary)
    for lev in range(2, n + 1):
        g = refine(q, rising)
        bx = (x >> (n - lev)) & 1
        by = (y >> (n - lev)) & 1
        q = g[by:by + 2, bx:bx + 2].copy()
    return q, rising


def quad_children(q, rising):
    """The four child quads [(dx, dy, quad)] of a quad."""
    g = refine(q, rising)
    return [(dx, dy, g[dy:dy + 2, dx:dx + 2].copy()) for dy in (0, 1) for dx in (0, 1)]


def quad_pixel_vectors(q, rising, npix=256):
    """Unit vectors (npix,npix,3) of the pixel centres of a quad, display orientation."""
    g = q
    k = int(round(np.log2(npix)))
    for _ in range(k + 1):
        g = refine(g, rising)
    return g[1::2, 1::2]


def tile_pixel_vectors(n, x, y, planetary=False):
    """Unit vectors (256,256,3) of the pixel centres of tile (n,x,y); n == 0 is the whole-sphere
    tile (its pixel (i,j) is the centre of level-8 tile (8, j, i))."""
    if n == 0:
        out = np.empty((256, 256, 3))
        for yy in (0, 1):
            for xx in (0, 1):
                q, rising = level1_quad(xx, yy, planetary)
                out[yy * 128:(yy + 1) * 128, xx * 128:(xx + 1) * 128] = quad_pixel_vectors(q, rising, 128)
        return out
    q, rising = tile_quad(n, x, y, planetary)
    return quad_pixel_vectors(q, rising, 256)


def vec_to_lonlat(v):
    """(lon in [0, 2pi), lat) in radians."""
    lon = np.arctan2(v[..., 1], v[..., 0]) % TWOPI
    lat = np.arctan2(v[..., 2], np.hypot(v[..., 0], v[..., 1]))
    return lon, lat


def lonlat_to_vec(lon, lat):
    cl = np.cos(lat)
    return np.stack([cl * np.cos(lon), cl * np.sin(lon), np.sin(lat)], axis=-1)
