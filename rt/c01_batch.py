"""Batch machinery shared by the bounded drivers that start toasty worker processes (C01, C03, C19).

``dispatch`` (driver side) cuts a list of JSON-able *cases* into batches and runs every batch in a
fresh interpreter through ``rt.common.call_isolated`` (hard watchdog, whole process group killed).
``run_batch`` (isolated side) runs ``module.func(case)`` for each case under a per-case SIGALRM
watchdog and appends one JSON line per event to an out-file, so that the driver knows exactly which
case did not come back even when the interpreter has to be killed.

Outcome per case: {"status": "done", "result": ..., "secs": s}
                | {"status": "timeout", "secs": s}     the case itself exceeded its watchdog
                | {"status": "skipped"}                not run (too many watchdog expiries before it)
A batch that hits the *outer* watchdog while a case is in progress does not blame that case: the
case is re-run alone with a full watchdog of its own.
"""
import importlib
import json
import os
import signal
import sys
import time
from concurrent.futures import ThreadPoolExecutor

from rt.common import call_isolated


class CaseTimeout(BaseException):
    """Raised by the SIGALRM handler; BaseException so that ``except Exception`` / ``except Empty``
    in the code under test cannot swallow it."""


def _append(path, obj):
    with open(path, "a") as f:
        f.write(json.dumps(obj, default=str) + "\n")
        f.flush()
        os.fsync(f.fileno())


def hard_exit(result):
    """Leave the isolated interpreter without running multiprocessing's exit handlers (a queue whose
    readers died would block them): kill leftover children, emit the result, _exit."""
    try:
        import multiprocessing as mp
        for c in mp.active_children():
            try:
                c.kill()
            except Exception:
                pass
    except Exception:
        pass
    sys.stdout.write("\n@@RESULT@@" + json.dumps(result, default=str))
    sys.stdout.flush()
    os._exit(0)


def run_batch(module, func, cases, outfile, case_timeout):
    mod = importlib.import_module(module)
    fn = getattr(mod, func)

    def on_alarm(_sig, _frm):
        raise CaseTimeout()

    signal.signal(signal.SIGALRM, on_alarm)
    main_pid = os.getpid()
    for case in cases:
        _append(outfile, {"id": case["id"], "phase": "start"})
        t0 = time.time()
        try:
            signal.alarm(int(case_timeout))
            try:
                res = fn(case)
            finally:
                signal.alarm(0)
        except CaseTimeout:
            if os.getpid() != main_pid:      # a forked worker inherited the handler (alarms are not inherited, but be safe)
                os._exit(1)
            _append(outfile, {"id": case["id"], "phase": "timeout", "secs": round(time.time() - t0, 2)})
            hard_exit({"aborted_at": case["id"]})
        if os.getpid() != main_pid:
            os._exit(0)
        _append(outfile, {"id": case["id"], "phase": "done", "result": res, "secs": round(time.time() - t0, 2)})
    hard_exit({"ok": True})


def _read(outfile):
    started, done, timed = [], {}, {}
    if os.path.exists(outfile):
        with open(outfile) as f:
            for line in f:
                line = line.strip()
                if not line:
                    continue
                try:
                    o = json.loads(line)
                except ValueError:
                    continue
                if o["phase"] == "start":
                    started.append(o["id"])
                elif o["phase"] == "done":
                    done[o["id"]] = o
                elif o["phase"] == "timeout":
                    timed[o["id"]] = o
    return started, done, timed


def dispatch(module, func, cases, workdir, case_timeout, batch_size=8, max_workers=16, max_timeouts=5, est_case_secs=4.0, batches=None):
    """Run all cases; returns {id: outcome}.  Deterministic in its verdicts; wall time depends on load."""
    os.makedirs(workdir, exist_ok=True)
    results = {}
    n_timeouts = [0]
    counter = [0]

    def run_one_batch(arg):
        tag, batch = arg
        bdir = os.path.join(workdir, tag)
        os.makedirs(bdir, exist_ok=True)
        outfile = os.path.join(bdir, "out.jsonl")
        for c in batch:
            c["_dir"] = bdir
        outer = case_timeout + 25 + est_case_secs * len(batch)
        status, res, secs = call_isolated("rt.c01_batch", "run_batch",
                                          {"module": module, "func": func, "cases": batch, "outfile": outfile, "case_timeout": case_timeout},
                                          outer)
        started, done, timed = _read(outfile)
        out, left = {}, []
        for c in batch:
            cid = c["id"]
            if cid in done:
                out[cid] = {"status": "done", "result": done[cid]["result"], "secs": done[cid]["secs"]}
            elif cid in timed:
                out[cid] = {"status": "timeout", "secs": timed[cid]["secs"]}
            elif cid in started and len(batch) == 1 and status == "timeout":
                out[cid] = {"status": "timeout", "secs": round(secs, 2)}
            elif cid in started and status == "crash":
                raise RuntimeError("case %r crashed the isolated interpreter: %r" % (c, res))
            else:
                left.append(c)
        if status == "crash" and not started:
            raise RuntimeError("isolated batch could not start: %r" % (res,))
        return out, left

    todo = batches if batches is not None else [cases[i:i + batch_size] for i in range(0, len(cases), batch_size)]
    rounds = 0
    while todo:
        rounds += 1
        with ThreadPoolExecutor(max_workers=max_workers) as pool:
            tagged = []
            for b in todo:
                counter[0] += 1
                tagged.append(("b%05d" % counter[0], b))
            outs = list(pool.map(run_one_batch, tagged))
        leftovers = []
        for out, left in outs:
            results.update(out)
            n_timeouts[0] += sum(1 for o in out.values() if o["status"] == "timeout")
            leftovers.extend(left)
        if not leftovers:
            break
        if n_timeouts[0] >= max_timeouts or rounds > 40:
            for c in leftovers:
                results[c["id"]] = {"status": "skipped"}
            break
        # re-run what was cut off, in smaller batches (a case interrupted by the outer watchdog runs alone)
        bs = max(1, min(batch_size // 2, 4))
        head = [[c] for c in leftovers[:max_workers]]
        rest = leftovers[max_workers:]
        todo = head + [rest[i:i + bs] for i in range(0, len(rest), bs)]
    return results
