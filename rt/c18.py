"""C18 -- bounded run-time driver: publishing is crash-safe (index.wtml reaches the store last).

Builds real pipeline work directories (``toasty-store-config.yaml``, ``approved/<id>/<files>``)
and runs the real ``toasty pipeline publish`` implementation
(``toasty.pipeline.cli.pipeline_impl`` -> ``PipelineManager.publish`` -> ``LocalPipelineIo``)
under every directory-listing order and with one failure injected at every transfer, then runs
the real ``refresh`` implementation and finally re-runs publish without faults.

Injection is done from outside the repo:
* listing order: ``os.listdir`` is wrapped so that ``approved/`` and ``approved/<id>/`` are
  listed in the order chosen by the case (all other directories: untouched);
* failures: the store is opened through the public registry ``PIPELINE_IO_LOADERS`` with a
  type ``c18-faulty`` that wraps the real ``LocalPipelineIo`` and, at the k-th ``put_item``,
  fails *before* it (nothing written), *during* it (the real ``put_item`` is fed a stream that
  delivers half of the bytes and then fails, so the real store write leaves a partial file) or
  *after* it (file complete, then failure).  Failure kinds: ``error`` (OSError, a transfer
  failure) and ``crash`` (a BaseException no ``except Exception`` can swallow).
* refresh: a stub image source registered in ``IMAGE_SOURCE_CLASS_LOADERS`` offers exactly the
  image ids of the scenario; "skipped as already done" is observed as "no candidates/<id> file".

Oracle (from the statement; the store and the directories are inspected with plain ``os``):
 S1  the ``put_item`` calls of one image end with ``index.wtml`` and name every file once;
 S2  at the moment of the failure: if ``<store>/<id>/index.wtml`` exists then every other file of
     that image is in the store with exactly the source bytes;
 S3  an image whose transfers did not all succeed is still complete under ``approved/`` and is
     not under ``published/``; an image is under ``published/`` only if the store holds all its
     files completely;
 S4  refresh skips as "done" only images whose *other* files are all complete in the store
     (an incomplete ``index.wtml`` itself with all other files complete is what the statement
     allows: the interrupted file can only be the one being transferred);
 S5  re-running publish (any listing order) terminates normally, the store then equals the
     source files byte for byte, every image is under ``published/`` and none under ``approved/``.

Obligations and witness keys
----------------------------
Every witness carries ``scenario`` (complete, replayable) and the summary keys ``n_images,
n_files, has_index, listing`` (file order of the faulted image), ``index_pos`` (position of
index.wtml in that listing, -1 if absent), ``fault_at`` (0-based global transfer number or
null), ``fault_file, fault_phase ('before'|'during'|'after'), fault_kind ('error'|'crash')``,
``image`` (id concerned) and ``detail``.

* ``rt/publish/index_last``                    S1
* ``rt/publish/store_consistent_after_fault``  S2
* ``rt/publish/moved_only_after_success``      S3
* ``rt/refresh/skips_partial``                 S4
* ``rt/publish/rerun_completes``               S5 (after a failure)
* ``rt/publish/complete_run``                  S5 for the fault-free first run

Bounds
------
quick   : one image, file sets of 1..5 names containing index.wtml: all permutations x a failure
          at each transfer x 3 phases x 2 kinds + the fault-free run of each permutation; sets
          of 1..3 names without index.wtml likewise; 1000 seeded random cases with 6..7 files;
          500 seeded cases with 2..3 approved images (random image order, per-image orders, fault
          anywhere).
thorough: the same exhaustively up to 6 names (720 orders), 10000 random cases with 7..9 files,
          6000 multi-image cases.
File sizes 0, 1, 17, 300 and 5000 bytes occur; names sort before and after ``index.wtml``.
Trusted: the local file system; ``os.rename`` atomicity.
Not covered: the Azure store; sub-directories inside an approved image (publish opens every
entry as a file); a crash inside ``os.rename`` itself; concurrent publishers.
"""
import argparse
import contextlib
import hashlib
import io
import itertools
import os
import shutil

O_LAST = "rt/publish/index_last"
O_STORE = "rt/publish/store_consistent_after_fault"
O_MOVED = "rt/publish/moved_only_after_success"
O_REFRESH = "rt/refresh/skips_partial"
O_RERUN = "rt/publish/rerun_completes"
O_COMPLETE = "rt/publish/complete_run"

NAMES = ["index.wtml", "index_rel.wtml", "thumb.jpg", "L0X0Y0.png", "L1X0Y0.png", "zzz.txt", "L1X1Y0.png", "a_first.dat", "L1X0Y1.png", "L1X1Y1.png"]
SIZES = [300, 17, 5000, 0, 1]


_real_listdir = os.listdir   # the checker's own inspections never go through the wrapper


class _Crash(BaseException):
    """A crash of the publishing process at a chosen point."""


class _TransferError(OSError):
    pass


# state of the injector for the scenario being run (per process)
_PLAN = {"fault": None, "count": 0, "puts": [], "fired": False, "orders": {}, "listdir_hits": 0}
_INSTALLED = {"done": False}


def _content(image_id, name, size):
    seed = hashlib.sha256(("%s/%s" % (image_id, name)).encode()).digest()
    out = (seed * (size // len(seed) + 1))[:size]
    return out


class _FaultySource(object):
    def __init__(self, inner, exc):
        self._data = inner.read()
        self._cut = len(self._data) // 2
        self._pos = 0
        self._exc = exc

    def read(self, n=-1):
        if self._pos >= self._cut:
            raise self._exc
        end = self._cut if (n is None or n < 0) else min(self._cut, self._pos + n)
        chunk = self._data[self._pos:end]
        self._pos = end
        return chunk


def _install():
    """Register the faulty store type and the stub image source; wrap os.listdir. Idempotent."""
    if _INSTALLED["done"]:
        return
    import toasty.pipeline as tp
    from toasty.pipeline.local_io import LocalPipelineIo

    class FaultyIo(tp.PipelineIo):
        def __init__(self, inner):
            self._inner = inner

        def _export_config(self):
            c = self._inner._export_config()
            c["_type"] = "c18-faulty"
            return c

        @classmethod
        def _new_from_config(cls, config):
            return cls(LocalPipelineIo._new_from_config(config))

        def check_exists(self, *path):
            return self._inner.check_exists(*path)

        def get_item(self, *path, dest=None):
            return self._inner.get_item(*path, dest=dest)

        def list_items(self, *path):
            return self._inner.list_items(*path)

        def put_item(self, *path, source=None):
            k = _PLAN["count"]
            _PLAN["count"] += 1
            _PLAN["puts"].append(list(path))
            f = _PLAN["fault"]
            if f is not None and not _PLAN["fired"] and f["at"] == k:
                _PLAN["fired"] = True
                exc = _Crash("injected crash") if f["kind"] == "crash" else _TransferError("injected transfer failure")
                if f["phase"] == "before":
                    raise exc
                if f["phase"] == "during":
                    return self._inner.put_item(*path, source=_FaultySource(source, exc))
                self._inner.put_item(*path, source=source)
                raise exc
            return self._inner.put_item(*path, source=source)

    tp.PIPELINE_IO_LOADERS["c18-faulty"] = FaultyIo._new_from_config

    class StubCandidate(tp.CandidateInput):
        def __init__(self, uid):
            self._uid = uid

        def get_unique_id(self):
            return self._uid

        def save(self, stream):
            stream.write(b"stub")

    class StubSource(tp.ImageSource):
        def __init__(self, ids):
            self._ids = ids

        @classmethod
        def get_config_key(cls):
            return "c18_stub"

        @classmethod
        def deserialize(cls, data):
            return cls(list(data["ids"]))

        def query_candidates(self):
            for i in self._ids:
                yield StubCandidate(i)

        def fetch_candidate(self, unique_id, cand_data_stream, cachedir):
            pass

        def process(self, unique_id, cand_data_stream, cachedir, builder):
            pass

    tp.IMAGE_SOURCE_CLASS_LOADERS["c18-stub"] = lambda: StubSource

    real_listdir = _real_listdir

    def listdir(path="."):
        real = real_listdir(path)
        try:
            key = os.path.normpath(os.fspath(path))
        except TypeError:
            return real
        order = _PLAN["orders"].get(key)
        if order is None:
            return real
        if sorted(order) != sorted(real):
            # the directory no longer has the planned content (e.g. an image was moved): keep the
            # planned relative order for what is still there
            order = [n for n in order if n in real] + [n for n in real if n not in order]
        _PLAN["listdir_hits"] += 1
        return list(order)

    os.listdir = listdir
    _INSTALLED["done"] = True


def _read(p):
    with open(p, "rb") as f:
        return f.read()


def _store_state(store, image):
    """{'complete': [...], 'partial': [...], 'missing': [...]} for the files of one image."""
    st = {"complete": [], "partial": [], "missing": [], "extra": []}
    for name, size in image["files"]:
        p = os.path.join(store, image["id"], name)
        if not os.path.exists(p):
            st["missing"].append(name)
        elif _read(p) == _content(image["id"], name, size):
            st["complete"].append(name)
        else:
            st["partial"].append(name)
    d = os.path.join(store, image["id"])
    if os.path.isdir(d):
        known = set(n for n, _ in image["files"])
        st["extra"] = sorted(n for n in _real_listdir(d) if n not in known)
    return st


def _dir_complete(base, image):
    d = os.path.join(base, image["id"])
    if not os.path.isdir(d):
        return False
    names = sorted(n for n, _ in image["files"])
    if sorted(_real_listdir(d)) != names:
        return False
    return all(_read(os.path.join(d, n)) == _content(image["id"], n, s) for n, s in image["files"])


def _publish(wd):
    from toasty.pipeline.cli import pipeline_impl
    settings = argparse.Namespace(pipeline_command="publish", workdir=wd)
    with contextlib.redirect_stdout(io.StringIO()):
        pipeline_impl(settings)


def _refresh(wd):
    from toasty.pipeline.cli import refresh_impl
    with contextlib.redirect_stdout(io.StringIO()):
        refresh_impl(argparse.Namespace(workdir=wd))


def _check_put_sequence(puts, images, fails, obligation_ctx, complete):
    """S1 on the recorded put_item paths. ``complete``: the run ended normally."""
    by_img = {}
    for p in puts:
        if len(p) != 2:
            fails.append((O_LAST, dict(obligation_ctx, image=None, detail="put_item path %r is not (id, filename)" % (p,)),
                          "put_item was called with path %r" % (p,)))
            continue
        by_img.setdefault(p[0], []).append(p[1])
    for img in images:
        seq = by_img.get(img["id"], [])
        names = [n for n, _ in img["files"]]
        if "index.wtml" in seq and seq.index("index.wtml") != len(names) - 1:
            fails.append((O_LAST, dict(obligation_ctx, image=img["id"], detail={"put_sequence": seq}),
                          "index.wtml of %s was transfer #%d of %d: %r" % (img["id"], seq.index("index.wtml") + 1, len(names), seq)))
        elif len(set(seq)) != len(seq) or any(n not in names for n in seq):
            fails.append((O_LAST, dict(obligation_ctx, image=img["id"], detail={"put_sequence": seq}),
                          "transfers of %s are not distinct files of the image: %r" % (img["id"], seq)))
        elif complete and sorted(seq) != sorted(names):
            fails.append((O_LAST, dict(obligation_ctx, image=img["id"], detail={"put_sequence": seq}),
                          "a normally ended publish transferred %r of %s, the image has %r" % (seq, img["id"], sorted(names))))


ALL_IDS = ["img_a", "img_b", "img_c"]


def _prepare(base, wd, store, images):
    """Bring the work directory below ``base`` into the scenario's initial state.  Directories of
    the previous scenario of this worker are recycled (the file system's directory operations are
    the bottleneck): an image directory left under published/ or approved/ is moved back to
    approved/ and its files are re-synchronised *by content*; the store and candidates/ are emptied."""
    import yaml
    app = os.path.join(wd, "approved")
    pub = os.path.join(wd, "published")
    if not os.path.exists(os.path.join(wd, "toasty-pipeline-config.yaml")):
        if os.path.exists(base):
            shutil.rmtree(base, ignore_errors=True)
        os.makedirs(app)
        os.makedirs(store)
        with open(os.path.join(wd, "toasty-store-config.yaml"), "w") as f:
            yaml.safe_dump({"_type": "c18-faulty", "path": store}, f)
        with open(os.path.join(wd, "toasty-pipeline-config.yaml"), "w") as f:
            yaml.safe_dump({"source_type": "c18-stub", "c18_stub": {"ids": ALL_IDS + ["never_seen"]}}, f)
    want = dict((im["id"], im) for im in images)
    for iid in set(ALL_IDS) | set(want):
        a, p_ = os.path.join(app, iid), os.path.join(pub, iid)
        if os.path.isdir(p_):
            if os.path.isdir(a):
                shutil.rmtree(p_, ignore_errors=True)
            else:
                os.rename(p_, a)
        im = want.get(iid)
        if im is None:
            if os.path.isdir(a):
                shutil.rmtree(a, ignore_errors=True)
        else:
            if not os.path.isdir(a):
                os.makedirs(a)
            names = dict((n, sz) for n, sz in im["files"])
            for fn in _real_listdir(a):
                if fn not in names:
                    q = os.path.join(a, fn)
                    shutil.rmtree(q) if os.path.isdir(q) else os.unlink(q)
            for n, sz in im["files"]:
                q = os.path.join(a, n)
                c = _content(iid, n, sz)
                if not (os.path.isfile(q) and _read(q) == c):
                    with open(q, "wb") as f:
                        f.write(c)
        sdir = os.path.join(store, iid)
        if os.path.isdir(sdir):
            shutil.rmtree(sdir, ignore_errors=True)
    for extra in _real_listdir(store):
        if extra not in ALL_IDS:
            q = os.path.join(store, extra)
            shutil.rmtree(q) if os.path.isdir(q) else os.unlink(q)
    cand = os.path.join(wd, "candidates")
    if os.path.isdir(cand):
        for fn in _real_listdir(cand):
            os.unlink(os.path.join(cand, fn))


def run_scenario(base, sc):
    """Run one scenario in the (recycled, see _prepare) work directory below ``base``. Returns
    {'fails': [(obligation, witness_extra, message)], 'fired': bool, 'puts': n, 'listdir_hits': n, 'notes': []}"""
    _install()
    import yaml
    wd = os.path.join(base, "wd")
    store = os.path.join(base, "store")
    images = sc["images"]
    app = os.path.join(wd, "approved")
    _prepare(base, wd, store, images)
    orders = {os.path.normpath(app): list(sc["image_order"])}
    for im in images:
        orders[os.path.normpath(os.path.join(app, im["id"]))] = list(im["order"])
    fault = sc.get("fault")
    _PLAN.update({"fault": fault, "count": 0, "puts": [], "fired": False, "orders": orders, "listdir_hits": 0})
    fails, notes = [], []
    # summary of the faulted image for the witness
    seq_global = []
    for iid in sc["image_order"]:
        im = [x for x in images if x["id"] == iid][0]
        names = [n for n, _ in im["files"]]
        planned = list(im["order"])
        seq_global += [(iid, n) for n in planned]
    f_img = None
    if fault is not None and fault["at"] < len(seq_global):
        f_img = [x for x in images if x["id"] == seq_global[fault["at"]][0]][0]
    ref = f_img or images[0]
    summary = {"n_images": len(images), "n_files": len(ref["files"]), "has_index": "index.wtml" in ref["order"],
               "listing": list(ref["order"]), "index_pos": ref["order"].index("index.wtml") if "index.wtml" in ref["order"] else -1,
               "fault_at": fault["at"] if fault else None, "fault_file": None,
               "fault_phase": fault["phase"] if fault else None, "fault_kind": fault["kind"] if fault else None}
    raised = None
    try:
        _publish(wd)
    except (_Crash, _TransferError) as e:
        raised = e
    except Exception as e:  # any other exception out of publish: the run ended abnormally as well
        raised = e
        if fault is None or not _PLAN["fired"]:
            fails.append((O_COMPLETE, dict(summary, image=None, detail={"exception": repr(e)}), "publish raised %r without an injected failure" % (e,)))
    puts1 = [list(p) for p in _PLAN["puts"]]
    fired = _PLAN["fired"]
    if fired and puts1:
        summary["fault_file"] = puts1[-1][-1] if fault["at"] == len(puts1) - 1 else None
    _PLAN["fault"] = None
    _check_put_sequence(puts1, images, fails, summary, complete=(raised is None))
    pub = os.path.join(wd, "published")
    # ---- state right after the first run
    for im in images:
        st = _store_state(store, im)
        others_bad = [n for n in st["missing"] + st["partial"] if n != "index.wtml"]
        index_in_store = os.path.exists(os.path.join(store, im["id"], "index.wtml"))
        if index_in_store and others_bad:
            fails.append((O_STORE, dict(summary, image=im["id"], detail={"missing": st["missing"], "partial": st["partial"]}),
                          "store has %s/index.wtml while %r are missing or incomplete (fault %r)" % (im["id"], others_bad, fault)))
        in_app = os.path.isdir(os.path.join(app, im["id"]))
        in_pub = os.path.isdir(os.path.join(pub, im["id"]))
        all_ok = not (st["missing"] or st["partial"])
        if in_pub and (not all_ok or in_app or not _dir_complete(pub, im)):
            fails.append((O_MOVED, dict(summary, image=im["id"], detail={"store": st, "in_approved": in_app}),
                          "%s is under published/ although its store copy is %s" % (im["id"], "incomplete: %r" % (st,) if not all_ok else "fine but approved/ still has it or files changed")))
        if not in_pub and not _dir_complete(app, im):
            fails.append((O_MOVED, dict(summary, image=im["id"], detail={"in_approved": in_app}),
                          "%s is neither complete under approved/ nor under published/ after the run" % im["id"]))
        if raised is None and not fired and not (in_pub and all_ok and not st["extra"]):
            fails.append((O_COMPLETE, dict(summary, image=im["id"], detail={"store": st, "in_published": in_pub}),
                          "fault-free publish ended normally but %s: published=%r store=%r" % (im["id"], in_pub, st)))
        if index_in_store and "index.wtml" in st["partial"] and not others_bad:
            notes.append("observation (allowed by the statement): a failure during the transfer of index.wtml itself leaves an "
                         "incomplete index.wtml in the local store (in-place write); refresh then counts the image as done, "
                         "publish still completes it on re-run because it stays under approved/")
    # ---- refresh on that state
    if fired or raised is not None:
        try:
            _refresh(wd)
            for im in images:
                skipped = not os.path.exists(os.path.join(wd, "candidates", im["id"]))
                st = _store_state(store, im)
                others_bad = [n for n in st["missing"] + st["partial"] if n != "index.wtml"]
                if skipped and others_bad:
                    fails.append((O_REFRESH, dict(summary, image=im["id"], detail={"missing": st["missing"], "partial": st["partial"]}),
                                  "refresh counted %s as already done while %r are missing or incomplete in the store" % (im["id"], others_bad)))
            if os.path.exists(os.path.join(wd, "candidates")) and not os.path.exists(os.path.join(wd, "candidates", "never_seen")):
                raise RuntimeError("checker: refresh did not save the never-published candidate")
        except RuntimeError:
            raise
        except Exception as e:
            raise RuntimeError("checker: refresh_impl could not be driven: %r" % (e,))
        # ---- re-run without faults, with the re-run listing orders
        ro = sc.get("rerun_orders") or {}
        orders2 = {os.path.normpath(app): list(ro.get("image_order", sc["image_order"]))}
        for im in images:
            orders2[os.path.normpath(os.path.join(app, im["id"]))] = list(ro.get(im["id"], im["order"]))
        _PLAN.update({"fault": None, "count": 0, "puts": [], "fired": False, "orders": orders2})
        try:
            _publish(wd)
            err = None
        except BaseException as e:  # noqa
            if isinstance(e, (KeyboardInterrupt, SystemExit)):
                raise
            err = e
        if err is not None:
            fails.append((O_RERUN, dict(summary, image=None, detail={"exception": repr(err)}), "re-running publish raised %r" % (err,)))
        else:
            remaining = [im for im in images if os.path.isdir(os.path.join(app, im["id"]))]
            _check_put_sequence([list(p) for p in _PLAN["puts"]], remaining, fails, summary, complete=False)
            for im in images:
                st = _store_state(store, im)
                ok = not (st["missing"] or st["partial"] or st["extra"])
                in_app = os.path.isdir(os.path.join(app, im["id"]))
                if not ok or in_app or not _dir_complete(pub, im):
                    fails.append((O_RERUN, dict(summary, image=im["id"], detail={"store": st, "in_approved": in_app}),
                                  "after re-running publish %s: store %r, still approved=%r, published complete=%r" % (
                                      im["id"], st, in_app, _dir_complete(pub, im))))
    res = {"fails": fails, "fired": fired, "puts": len(puts1), "listdir_hits": _PLAN["listdir_hits"], "notes": notes}
    _PLAN["orders"] = {}
    return res


def _run_many(base, scenarios):
    out = []
    d = os.path.join(base, "p%d" % os.getpid())
    for sc in scenarios:
        try:
            out.append(run_scenario(d, sc))
        except Exception:
            import traceback
            out.append({"error": traceback.format_exc()[-1800:]})
    return out


# ----------------------------------------------------------------------------------------
# domain

def _image(iid, names, order, k0=0):
    return {"id": iid, "files": [[n, SIZES[(i + k0) % len(SIZES)]] for i, n in enumerate(sorted(names))], "order": list(order)}


def single_image_scenarios(names):
    """All listing orders x (no fault + fault at each transfer x phase x kind)."""
    out = []
    n = len(names)
    for order in itertools.permutations(names):
        img = _image("img_a", names, order)
        base = {"images": [img], "image_order": ["img_a"]}
        out.append(dict(base, fault=None))
        rer = list(reversed(order))
        for at in range(n):
            for phase in ("before", "during", "after"):
                for kind in ("error", "crash"):
                    out.append(dict(base, fault={"at": at, "phase": phase, "kind": kind},
                                    rerun_orders={"img_a": rer if (at + len(phase)) % 2 else list(order)}))
    return out


def random_single(rng, nmin, nmax):
    n = rng.randint(nmin, nmax)
    names = ["index.wtml"] + rng.sample(NAMES[1:], n - 1) if rng.random() < 0.9 else rng.sample(NAMES[1:], n)
    order = list(names)
    rng.shuffle(order)
    rer = list(names)
    rng.shuffle(rer)
    img = _image("img_a", names, order, rng.randrange(5))
    fault = None if rng.random() < 0.03 else {"at": rng.randrange(n), "phase": rng.choice(["before", "during", "after"]),
                                               "kind": rng.choice(["error", "crash"])}
    return {"images": [img], "image_order": ["img_a"], "fault": fault, "rerun_orders": {"img_a": rer}}


def random_multi(rng):
    ids = ["img_a", "img_b", "img_c"][:rng.randint(2, 3)]
    images = []
    total = 0
    for iid in ids:
        n = rng.randint(1, 4)
        names = ["index.wtml"] + rng.sample(NAMES[1:], n - 1) if rng.random() < 0.85 else rng.sample(NAMES[1:], n)
        order = list(names)
        rng.shuffle(order)
        images.append(_image(iid, names, order, rng.randrange(5)))
        total += n
    io_ = list(ids)
    rng.shuffle(io_)
    io2 = list(ids)
    rng.shuffle(io2)
    rer = {"image_order": io2}
    for im in images:
        o = list(im["order"])
        rng.shuffle(o)
        rer[im["id"]] = o
    fault = {"at": rng.randrange(total), "phase": rng.choice(["before", "during", "after"]), "kind": rng.choice(["error", "crash"])}
    return {"images": images, "image_order": io_, "fault": fault, "rerun_orders": rer}


def _key(sc):
    f = sc.get("fault") or {}
    return (tuple((im["id"], tuple(im["order"]), tuple(s for _, s in im["files"])) for im in sc["images"]), tuple(sc["image_order"]),
            f.get("at"), f.get("phase"), f.get("kind"), str(sorted((sc.get("rerun_orders") or {}).items())))


def run(ctx):
    from concurrent.futures import ProcessPoolExecutor
    import multiprocessing as mp
    import toasty.pipeline.cli  # noqa: F401  (import before forking)
    thorough = ctx.thorough
    rng = ctx.rng
    nmax = 6 if thorough else 5
    scs = []
    for n in range(1, nmax + 1):
        scs += single_image_scenarios(NAMES[:n])
    n_ex = len(scs)
    for n in range(1, 4):
        scs += single_image_scenarios(NAMES[1:n + 1])
    n_ex2 = len(scs) - n_ex
    n_rand = 10000 if thorough else 1000
    n_multi = 6000 if thorough else 500
    scs += [random_single(rng, nmax + 1, 9 if thorough else 7) for _ in range(n_rand)]
    scs += [random_multi(rng) for _ in range(n_multi)]
    ctx.bound("one image, file sets {index.wtml + first n-1 of %r}, n = 1..%d: ALL listing orders x (fault-free run + failure at each "
              "transfer x phases before/during/after x kinds error/crash) = %d scenarios" % (NAMES[1:nmax], nmax, n_ex))
    ctx.bound("same without index.wtml for n = 1..3: %d scenarios" % n_ex2)
    ctx.bound("%d seeded random single-image scenarios with %d..%d files (random order, fault, re-run order)" % (n_rand, nmax + 1, 9 if thorough else 7))
    ctx.bound("%d seeded scenarios with 2..3 approved images (random image order, per-image orders, fault at any global transfer)" % n_multi)
    ctx.bound("after each failure: store/approved/published inspected, real refresh run, then publish re-run fault-free (other listing order)")
    ctx.assume("local file system semantics; os.rename moves a directory atomically; failures are modelled as exceptions raised in "
               "put_item (OSError, or a BaseException for a crash), the 'during' phase through the real LocalPipelineIo.put_item fed by a failing stream")
    nproc = min(14, max(1, (mp.cpu_count() or 2) - 1))
    chunk = 60
    chunks = [scs[i:i + chunk] for i in range(0, len(scs), chunk)]
    results = []
    with ProcessPoolExecutor(max_workers=nproc, mp_context=mp.get_context("fork")) as ex:
        futs = [ex.submit(_run_many, ctx.workdir, c) for c in chunks]
        for f in futs:
            results.extend(f.result())
    reported = {}
    notes = set()
    puts = hits = fired = 0
    for sc, res in zip(scs, results):
        if res.get("error"):
            raise RuntimeError("checker error in rt/c18:\n%s" % res["error"])
        planned_fault = sc.get("fault") is not None
        ctx.case(_key(sc), nontrivial=(res["fired"] or not planned_fault))
        puts += res["puts"]
        hits += res["listdir_hits"]
        fired += 1 if res["fired"] else 0
        for n in res["notes"]:
            notes.add(n)
        if res["fired"] and len(ctx.samples) < 6 and sc["fault"]["at"] > 1:
            ctx.sample({"order": sc["images"][0]["order"], "fault": sc["fault"]})
        for obl, wit, msg in res["fails"]:
            c = reported.get(obl, 0)
            if c < 5:
                w = dict(wit)
                w["scenario"] = sc
                ctx.violation(obl, w, msg)
            reported[obl] = c + 1
    ctx.monitor("c18.put_item_calls_seen", puts)
    ctx.monitor("c18.listdir_orders_served", hits)
    ctx.monitor("c18.faults_fired", fired)
    for n in sorted(notes):
        ctx.note(n)
    for obl, c in reported.items():
        if c > 5:
            ctx.note("%s failed in %d scenarios (first 5 reported)" % (obl, c))


def replay(obligation, witness):
    import tempfile
    d = tempfile.mkdtemp(prefix="verif_c18_replay_")
    try:
        res = run_scenario(os.path.join(d, "case"), witness["scenario"])
    finally:
        shutil.rmtree(d, ignore_errors=True)
    same = [f for f in res["fails"] if f[0] == obligation]
    if same:
        return False, same[0][2]
    return True, "obligation holds on this witness" + (" (other obligations fail: %s)" % sorted(set(f[0] for f in res["fails"])) if res["fails"] else "")
