"""Object-history scenarios shared by the bounded drivers of C01, C03 and C13.

The other scenarios of those drivers build a fresh ``Pyramid`` for every case.  Here ONE object lives
through a short *program* of public operations -- the three counters, leaf visits, walks, enumeration,
``subpyramid(apex)`` (at most once, as documented) and assignments to ``depth`` ("This value may be
changed") -- and every single answer is compared with what the property statement says about the
configuration the object has *at that moment* (rt/c13_quadtree.py: shift arithmetic on tuples).  The rule
behind all clauses: the result of an operation depends on the object's current configuration (kind, depth,
filter, apex, coordinate system) and on the arguments, never on which operations ran before.

Program steps (JSON lists):
  ["count_leaf_tiles"] | ["count_live_tiles"] | ["count_operations"]
  ["visit", parallel] | ["walk", parallel]      real Pyramid.visit_leaves / Pyramid.walk with a recording callback
  ["iter"]                                      list(pyr._generator())               (skipped when the hook is absent)
  ["reduce"]                                    a full reduction over pyr._make_iter_reducer()   (same)
  ["sub", [n, x, y]]                            pyr.subpyramid(Pos(n, x, y))
  ["depth", d]                                  pyr.depth = d

A case = shape keys of the object as constructed (kind, depth, accept, apex, coordsys; see
rt/c13_quadtree.py) + "program" + optional "delay_ms" (seeded per-tile sleep inside callbacks that run in
worker processes).  ``run_history`` (isolated side or in-process) executes the program, then runs every
observing operation of the program's *tail* (the steps after the last ``sub``/``depth``) once more on a
freshly constructed object of the same final configuration -- a new object per operation, serially.

Clauses produced by ``evaluate`` (scenario = history_<walk|visit>_<serial|parallel>, history_counts,
history_iter; the drivers prefix "rt/"):
  history_walk_*/callback_multiset   walk callbacks vs the live non-leaf tiles of the current sub-pyramid
  history_walk_*/children_first      callback of a tile started before that of a live non-leaf child ended
  history_visit_*/every_item_once    leaf callbacks vs the leaves that pass the filter and lie in the current sub-pyramid
  history_visit_*/tile_of_pos        a leaf delivered with another tile (or with a tile in a generic pyramid)
  history_<s>/same_as_fresh          answer differs from the answer of a fresh object of the same configuration
  history_<s>/repeatable             two executions of the same operation under the same configuration differ
  history_<s>/raises                 an operation the property requires to succeed raised
  history_counts/leaf|live|operations  counter vs the statement's number
  history_counts/closed_form         counter vs 4^k / T(k) without a filter
  history_counts/equals_visits       counter vs the number of callbacks of a visit / walk under the same configuration
  history_counts/sum_identity        operations + leaves != live (latest values under one configuration)
  history_counts/restriction         visits after subpyramid(apex) vs the part below the apex of the visits the same
                                     object made before it (same depth)
  history_iter/enumeration           _generator / reduction: every in-scope position once, children first
Every extra-witness carries "step" (index into the program) and "op".
"""
import contextlib
import io
import os
import random
import time

from rt import c13_quadtree as Q

COUNTS = ("count_leaf_tiles", "count_live_tiles", "count_operations")
OBS = COUNTS + ("visit", "walk", "iter", "reduce")
MUT = ("sub", "depth")


# ---------------------------------------------------------------------------------------------
# configuration bookkeeping (no toasty code)

def configs(case):
    """-> ([(depth, apex) in effect when step i executes], (final depth, final apex))"""
    depth = case["depth"]
    apex = tuple(case["apex"]) if case.get("apex") else None
    out = []
    for step in case["program"]:
        out.append((depth, apex))
        if step[0] == "sub":
            apex = tuple(step[1])
        elif step[0] == "depth":
            depth = int(step[1])
    return out, (depth, apex)


def tail_start(case):
    k = 0
    for i, step in enumerate(case["program"]):
        if step[0] in MUT:
            k = i + 1
    return k


def max_parallel(case):
    return max([1] + [int(s[1]) for s in case["program"] if s[0] in ("visit", "walk")])


# ---------------------------------------------------------------------------------------------
# execution (the only part that touches toasty)

def _quiet():
    return contextlib.redirect_stdout(io.StringIO())


class _Recorder(object):
    """Callback for walk (pos) and visit_leaves (pos, tile).  Serial: appends to a list.  With worker
    processes: one O_APPEND log file per process."""

    def __init__(self, logdir, delay_ms, seed):
        self.logdir = logdir
        self.delay_ms = delay_ms
        self.seed = seed
        self.events = []
        self.fds = {}

    def _emit(self, typ, key, extra):
        t = time.monotonic()
        pid = os.getpid()
        if self.logdir is None:
            self.events.append([typ, key[0], key[1], key[2], t, pid, extra])
            return
        fd = self.fds.get(pid)
        if fd is None:
            fd = os.open(os.path.join(self.logdir, "%d.log" % pid), os.O_WRONLY | os.O_CREAT | os.O_APPEND, 0o644)
            self.fds.clear()
            self.fds[pid] = fd
        os.write(fd, ("%s %d %d %d %.9f %d %s\n" % (typ, key[0], key[1], key[2], t, pid, extra)).encode())

    def __call__(self, pos, *rest):
        key = (pos.n, pos.x, pos.y)
        extra = "-"
        if rest:
            tile = rest[0]
            if tile is not None:
                try:
                    extra = "%d,%d,%d" % (tile.pos.n, tile.pos.x, tile.pos.y)
                except Exception:
                    extra = "?"
        self._emit("S", key, extra)
        if self.delay_ms and self.logdir is not None:
            r = random.Random(self.seed * 7919 + key[0] * 1000003 + key[1] * 1009 + key[2])
            time.sleep(r.random() * self.delay_ms / 1000.0)
        self._emit("E", key, extra)

    def collect(self):
        if self.logdir is None:
            return self.events
        ev = []
        for name in sorted(os.listdir(self.logdir)):
            if not name.endswith(".log"):
                continue
            with open(os.path.join(self.logdir, name)) as f:
                for line in f:
                    p = line.rstrip("\n").split(" ", 6)
                    if len(p) == 7:
                        ev.append([p[0], int(p[1]), int(p[2]), int(p[3]), float(p[4]), int(p[5]), p[6]])
        return ev


def _do(pyr, step, logdir, delay_ms, seed):
    """Execute one step on ``pyr``; -> record {"op", "result" | "exception" | "skipped"}."""
    from toasty.pyramid import Pos
    op = step[0]
    rec = {"op": op}
    try:
        with _quiet():
            if op in COUNTS:
                rec["result"] = getattr(pyr, op)()
            elif op in ("visit", "walk"):
                par = int(step[1])
                ld = None
                if par > 1:
                    ld = logdir
                    os.makedirs(ld, exist_ok=True)
                r = _Recorder(ld, delay_ms, seed)
                try:
                    if op == "visit":
                        pyr.visit_leaves(r, parallel=par)
                    else:
                        pyr.walk(r, parallel=par)
                finally:
                    rec["t_return"] = time.monotonic()
                    rec["result"] = r.collect()
            elif op == "iter":
                if not hasattr(pyr, "_generator"):
                    rec["skipped"] = True
                else:
                    rec["result"] = [[pos.n, pos.x, pos.y, None if tile is None else [tile.pos.n, tile.pos.x, tile.pos.y]]
                                     for pos, tile in pyr._generator()]
            elif op == "reduce":
                if not hasattr(pyr, "_make_iter_reducer"):
                    rec["skipped"] = True
                else:
                    riter = pyr._make_iter_reducer(default_value=None)
                    seen = []
                    for pos, _tile, is_leaf, data in riter:
                        p = [pos.n, pos.x, pos.y]
                        seen.append([p, bool(is_leaf), [list(d) if d is not None else None for d in data]])
                        riter.set_data(p)
                    res = riter.result()
                    rec["result"] = {"seen": seen, "top": list(res) if res is not None else None}
            elif op == "sub":
                ret = pyr.subpyramid(Pos(n=step[1][0], x=step[1][1], y=step[1][2]))
                rec["result"] = ret is pyr
            elif op == "depth":
                pyr.depth = int(step[1])
                rec["result"] = True
            else:
                raise ValueError("unknown step %r" % (step,))
    except Exception as e:
        rec["exception"] = repr(e)
    return rec


def run_history(case):
    """Run the program on one object, then the tail's observing operations on fresh objects.  JSON-able."""
    import tempfile
    base = case.get("_dir") or (tempfile.mkdtemp(prefix="hist_") if max_parallel(case) > 1 else None)
    kind, depth, acc, apex, cs = Q.shape_from_witness(case)
    delay_ms = float(case.get("delay_ms") or 0.0)
    seed = int(case.get("seed") or 0)
    out = {"steps": [], "fresh": {}, "construct_exception": None}
    try:
        pyr = Q.make_pyramid(kind, depth, acc, apex, cs)
    except Exception as e:
        out["construct_exception"] = repr(e)
        return out
    for i, step in enumerate(case["program"]):
        ld = os.path.join(base, "h%s_s%d" % (case.get("id", 0), i)) if base else None
        out["steps"].append(_do(pyr, step, ld, delay_ms, seed))
    # fresh objects of the final configuration: one new object per distinct observing operation of the tail
    _cfgs, (fdepth, fapex) = configs(case)
    for step in case["program"][tail_start(case):]:
        op = step[0]
        if op in MUT or op in out["fresh"]:
            continue
        try:
            fp = Q.make_pyramid(kind, fdepth, acc, fapex, cs)
        except Exception as e:
            out["fresh"][op] = {"op": op, "exception": "construction: " + repr(e)}
            continue
        out["fresh"][op] = _do(fp, [op, 1], None, 0.0, seed)
    return out


# ---------------------------------------------------------------------------------------------
# evaluation (no toasty code)

def _starts(events):
    d = {}
    for e in events:
        if e[0] == "S":
            d.setdefault((e[1], e[2], e[3]), []).append(e)
    return d


def _ends(events):
    d = {}
    for e in events:
        if e[0] == "E":
            d.setdefault((e[1], e[2], e[3]), []).append(e)
    return d


def _counted(events):
    return {p: len(v) for p, v in _starts(events).items()}


def _ms_diff(got, want):
    """got: {pos: n}; want: set -> (missing, extra, duplicated) sorted lists"""
    missing = sorted(p for p in want if p not in got)
    extra = sorted(p for p in got if p not in want)
    dup = sorted(p for p, n in got.items() if n > 1)
    return missing, extra, dup


def _summary(op, rec):
    """Comparable digest of an observation (independent of order in time and of process ids)."""
    if "result" not in rec:
        return None
    r = rec["result"]
    if op in COUNTS:
        return r
    if op in ("visit", "walk"):
        return sorted((list(p), n, sorted(set(e[6] for e in _starts(r)[p]))) for p, n in _counted(r).items())
    if op == "iter":
        return sorted(map(repr, r))
    if op == "reduce":
        return [sorted(map(repr, r["seen"])), r["top"]]
    return r


def evaluate(case, result):
    """-> list of (scenario, clause, extra_witness, message)."""
    from rt import c13 as C13        # _enum_problems (pure)
    out = []
    kind, _d0, acc, _a0, _cs = Q.shape_from_witness(case)
    prog = case["program"]
    if result.get("construct_exception"):
        return [("history_counts", "raises", {"step": -1, "op": "construct", "exception": result["construct_exception"]},
                 "constructing the pyramid raised %s" % result["construct_exception"])]
    cfgs, final = configs(case)
    exps = {}

    def expect(cfg):
        if cfg not in exps:
            exps[cfg] = Q.Expect(kind, cfg[0], acc, cfg[1])
        return exps[cfg]

    def scen(op, par):
        if op == "walk":
            return "history_walk_%s" % ("serial" if par == 1 else "parallel")
        if op == "visit":
            return "history_visit_%s" % ("serial" if par == 1 else "parallel")
        if op in COUNTS or op in MUT:
            return "history_counts"
        return "history_iter"

    steps = result["steps"]
    latest = {}          # cfg -> {count name: value}
    visits = {}          # cfg -> {"visit": [(i, counted)], "walk": [...]}
    by_cfg_op = {}       # (cfg, op) -> [(i, summary)]
    for i, (step, rec) in enumerate(zip(prog, steps)):
        op = step[0]
        par = int(step[1]) if op in ("visit", "walk") else 1
        s = scen(op, par)
        cfg = cfgs[i]
        base = {"step": i, "op": op}
        if rec.get("skipped"):
            continue
        if rec.get("exception"):
            out.append((s, "raises", dict(base, exception=rec["exception"]), "step %d %s raised %s" % (i, step, rec["exception"])))
            if "result" not in rec:
                continue
        if op in MUT:
            if op == "sub" and rec.get("result") is not True:
                out.append((s, "raises", dict(base, exception="subpyramid() did not return the pyramid itself"),
                            "step %d: subpyramid() returned another object" % i))
            continue
        exp = expect(cfg)
        na = exp.apex[0]
        depth = cfg[0]
        r = rec["result"]
        by_cfg_op.setdefault((cfg, op), []).append((i, _summary(op, rec)))
        if op in COUNTS:
            short, oracle, closed = {"count_leaf_tiles": ("leaf", len(exp.leaves), 4 ** (depth - na)),
                                    "count_live_tiles": ("live", len(exp.live), Q.T(depth - na)),
                                    "count_operations": ("operations", len(exp.ops), Q.T(depth - na - 1))}[op]
            if r != oracle:
                out.append((s, short, dict(base, reported=r, oracle=oracle, config=[depth, list(cfg[1]) if cfg[1] else None]),
                            "step %d: %s() = %r on a pyramid of depth %d, apex %s; the statement gives %d" % (i, op, r, depth, cfg[1], oracle)))
            if kind != "f" and r != closed:
                out.append((s, "closed_form", dict(base, which=short, reported=r, closed_form=closed),
                            "step %d: %s() = %r without a filter, closed form %d" % (i, op, r, closed)))
            latest.setdefault(cfg, {})[short] = (i, r)
            L = latest[cfg]
            if len(L) == 3 and isinstance(L["operations"][1], int) and isinstance(L["leaf"][1], int) and isinstance(L["live"][1], int) \
                    and L["operations"][1] + L["leaf"][1] != L["live"][1]:
                out.append((s, "sum_identity", dict(base, leaf=L["leaf"][1], live=L["live"][1], operations=L["operations"][1]),
                            "step %d: operations %r + leaves %r != live %r under one configuration" % (i, L["operations"][1], L["leaf"][1], L["live"][1])))
        elif op in ("visit", "walk"):
            got = _counted(r)
            want = exp.leaves if op == "visit" else exp.ops
            missing, extra, dup = _ms_diff(got, want)
            if (missing and not rec.get("exception")) or extra or dup:
                clause = "every_item_once" if op == "visit" else "callback_multiset"
                out.append((s, clause, dict(base, missing=[list(p) for p in missing[:8]], extra=[list(p) for p in extra[:8]],
                                            duplicated=[list(p) for p in dup[:8]], config=[depth, list(cfg[1]) if cfg[1] else None]),
                            "step %d %s on a pyramid of depth %d, apex %s (after %s): %d callbacks, %d tiles expected; missing %s extra %s duplicated %s" % (
                                i, step, depth, cfg[1], [st[0] for st in prog[:i]], sum(got.values()), len(want), missing[:4], extra[:4], dup[:4])))
            visits.setdefault(cfg, {}).setdefault(op, []).append((i, got))
            if op == "visit":
                want_tile = kind != "g" and depth >= 1
                for p, evs in _starts(r).items():
                    g = evs[0][6]
                    ok = (g == "%d,%d,%d" % p) if want_tile else (g == "-")
                    if not ok:
                        out.append((s, "tile_of_pos", dict(base, pos=list(p), tile_pos=g), "step %d: leaf %s delivered with tile %s" % (i, p, g)))
                        break
            else:
                st, en = _starts(r), _ends(r)
                for p in st:
                    if p not in exp.ops:
                        continue
                    t_s = min(e[4] for e in st[p])
                    for c in exp.live_nonleaf_children(p):
                        if c in en:
                            t_e = min(e[4] for e in en[c])
                            if t_e > t_s:
                                out.append((s, "children_first", dict(base, parent=list(p), child=list(c), gap_s=round(t_e - t_s, 6)),
                                            "step %d: callback of %s started %.4f s before the callback of its live child %s had ended" % (i, p, t_e - t_s, c)))
                        elif c in st:
                            out.append((s, "children_first", dict(base, parent=list(p), child=list(c), gap_s=None),
                                        "step %d: callback of %s started while the callback of its live child %s had not ended" % (i, p, c)))
        elif op == "iter":
            seq = [(e[0], e[1], e[2]) for e in r]
            extra_ok = set(Q.anc(exp.apex, k) for k in range(exp.apex[0]))
            probs = C13._enum_problems(seq, exp.scope, depth, extra_ok)
            for e in r:
                p = (e[0], e[1], e[2])
                ok = (e[3] is None) if (kind == "g" or p[0] == 0) else (e[3] is not None and tuple(e[3]) == p)
                if not ok:
                    probs.append(("tile does not belong to position", p))
                    break
            for prob, p in probs[:3]:
                out.append((s, "enumeration", dict(base, problem=prob, pos=list(p) if p else None, config=[depth, list(cfg[1]) if cfg[1] else None]),
                            "step %d: _generator on a pyramid of depth %d, apex %s: %s %s" % (i, depth, cfg[1], prob, p)))
        elif op == "reduce":
            seen = [tuple(x[0]) for x in r["seen"]]
            probs = C13._enum_problems(seen, exp.scope, depth)
            want_top = exp.apex if exp.apex in exp.scope else None
            top = tuple(r["top"]) if r["top"] is not None else None
            if top != want_top:
                probs.append(("result of the reduction is %r, expected %r" % (top, want_top), None))
            for p, is_leaf, data in r["seen"]:
                p = tuple(p)
                want = [list(c) if (c in exp.scope and p[0] < depth) else None for c in Q.children(p)]
                if data != want or is_leaf != (p[0] == depth):
                    probs.append(("child slots %s, expected %s" % (data, want), p))
                    break
            for prob, p in probs[:3]:
                out.append((s, "enumeration", dict(base, problem=prob, pos=list(p) if p else None, config=[depth, list(cfg[1]) if cfg[1] else None]),
                            "step %d: reduction on a pyramid of depth %d, apex %s: %s %s" % (i, depth, cfg[1], prob, p)))
    # counters vs the callbacks actually made under the same configuration
    for cfg, L in latest.items():
        for short, vop in (("leaf", "visit"), ("operations", "walk")):
            if short in L:
                for j, got in visits.get(cfg, {}).get(vop, []):
                    if steps[j].get("exception"):
                        continue
                    n = sum(got.values())
                    if L[short][1] != n:
                        out.append(("history_counts", "equals_visits", {"step": L[short][0], "op": "count_" + short, "reported": L[short][1], "visited": n, "visit_step": j},
                                    "count of %s tiles = %r (step %d) but step %d %s made %d callbacks under the same configuration" % (
                                        short, L[short][1], L[short][0], j, prog[j], n)))
    # same operation, same configuration, different answers
    for (cfg, op), lst in by_cfg_op.items():
        i0, s0 = lst[0]
        for i1, s1 in lst[1:]:
            if s1 != s0 and s0 is not None and s1 is not None:
                par = max(int(prog[i0][1]) if op in ("visit", "walk") else 1, int(prog[i1][1]) if op in ("visit", "walk") else 1)
                out.append((scen(op, par), "repeatable", {"step": i1, "op": op, "first_step": i0},
                            "steps %d and %d run %s under the same configuration (depth %d, apex %s) and differ" % (i0, i1, op, cfg[0], cfg[1])))
                break
    # history object vs fresh object of the final configuration
    k = tail_start(case)
    for i in range(k, len(prog)):
        op = prog[i][0]
        f = result["fresh"].get(op)
        if op in MUT or f is None or steps[i].get("skipped") or f.get("skipped"):
            continue
        a, b = _summary(op, steps[i]), _summary(op, f)
        if a is None or b is None:
            if (a is None) != (b is None):
                out.append((scen(op, int(prog[i][1]) if op in ("visit", "walk") else 1), "same_as_fresh",
                            {"step": i, "op": op, "history": steps[i].get("exception"), "fresh": f.get("exception")},
                            "step %d %s: %s on the object with a history, %s on a fresh object of the same configuration" % (
                                i, op, "raised" if a is None else "answered", "raised" if b is None else "answered")))
            continue
        if a != b:
            par = int(prog[i][1]) if op in ("visit", "walk") else 1
            out.append((scen(op, par), "same_as_fresh", {"step": i, "op": op, "history": _short(a), "fresh": _short(b)},
                        "step %d %s after %s: the object with a history answers %s, a fresh object of the same configuration (depth %d, apex %s) %s" % (
                            i, prog[i], [st[0] for st in prog[:i]], _short(a), final[0], final[1], _short(b))))
    # restriction: visits after sub vs the part of the same object's earlier visits below the apex
    for i, step in enumerate(prog):
        if step[0] != "sub":
            continue
        apex = tuple(step[1])
        before, after = cfgs[i], (cfgs[i][0], apex)
        for vop in ("visit", "walk"):
            pre = visits.get(before, {}).get(vop, [])
            post = [x for x in visits.get(after, {}).get(vop, []) if x[0] > i]
            if not pre or not post:
                continue
            j0, full = pre[-1]
            j1, sub = post[0]
            if steps[j0].get("exception") or steps[j1].get("exception"):
                continue
            part = sorted(p for p in full if Q.below(p, apex))
            if sorted(sub) != part:
                out.append(("history_counts", "restriction", {"step": j1, "op": vop, "full_step": j0, "missing": [list(p) for p in part if p not in sub][:8],
                                                              "extra": [list(p) for p in sorted(sub) if p not in part][:8]},
                            "step %d %s after subpyramid(%s) differs from the part below the apex of step %d on the same object" % (j1, vop, apex, j0)))
    return out


def _short(s):
    t = repr(s)
    return t if len(t) <= 160 else t[:157] + "..."


def witness_of(case, **extra):
    w = {k: case.get(k) for k in ("kind", "depth", "accept", "apex", "coordsys", "program", "delay_ms", "seed")}
    w["parallel"] = max_parallel(case)
    w.update(extra)
    return w


def case_from_witness(w):
    c = {k: w.get(k) for k in ("kind", "depth", "accept", "apex", "coordsys", "program", "delay_ms", "seed")}
    c["coordsys"] = c["coordsys"] or "astronomical"
    return c


# ---------------------------------------------------------------------------------------------
# program families (deterministic given the rng)

def _tail(focus, par, rng=None):
    """Observing steps that end a program.  focus: 'walk' | 'visit' | 'counts'."""
    if focus == "walk":
        t = [["walk", par]]
        if rng is None or rng.random() < 0.5:
            t.append(["count_operations"])
        return t
    if focus == "visit":
        t = [["visit", par]]
        if rng is None or rng.random() < 0.5:
            t.append(["count_leaf_tiles"])
        return t
    t = [[c] for c in COUNTS] + [["visit", par], ["walk", par], ["iter"], ["reduce"]]
    if rng is not None:
        rng.shuffle(t)
    return t + [[c] for c in COUNTS]


def _obs_step(rng, par=1):
    op = rng.choice(OBS)
    return [op, par] if op in ("visit", "walk") else [op]


def pick_apex(rng, depth, accept, kind, min_n=1):
    """An apex with min_n <= n <= depth; for filtered pyramids mostly one whose sub-pyramid is not empty."""
    n = rng.randint(min(min_n, depth), depth)
    if kind == "f" and accept and rng.random() < 0.75:
        cands = [tuple(p) for p in accept if p[0] == n and Q.reachable(tuple(p), "f", set(tuple(q) for q in accept))]
        if cands:
            return rng.choice(cands)
    return (n, rng.randrange(2 ** n), rng.randrange(2 ** n))


def random_program(rng, kind, depth, accept, focus, par=1, pre_par=1):
    """prefix of 1-3 observations; then none / sub / depth / both (either order), observations in between;
    then the tail.  Depth changes keep depth >= apex level.  Returns the program (list of steps)."""
    prog = [_obs_step(rng, pre_par) for _ in range(rng.randint(1, 3))]
    mode = rng.choice(["sub", "sub", "sub", "depth", "sub+depth", "depth+sub", "none"])
    d, apex = depth, None
    for m in ([] if mode == "none" else mode.split("+")):
        if m == "sub":
            apex = pick_apex(rng, d, accept, kind)
            prog.append(["sub", list(apex)])
        else:
            lo = apex[0] if apex else 0
            choices = [x for x in range(max(lo, 0), min(depth + 1, 5) + 1) if x != d and (x >= 1 or apex is None)]
            if kind == "f":
                choices = [x for x in choices if x <= depth]      # the accept-set says nothing about deeper levels
            if not choices:
                continue
            d = rng.choice(choices)
            prog.append(["depth", d])
        if rng.random() < 0.4:
            prog.append(_obs_step(rng, 1))
    prog += _tail(focus, par, rng)
    if mode == "none" or rng.random() < 0.3:
        prog += _tail(focus, par, rng)[:2]       # plain repetition
    return prog


def directed_programs(kind, depth, focus, ops=OBS, par=1):
    """[o, sub(apex), tail] for every observing operation o and every apex with 1 <= n <= depth;
    [o, o] + tail (plain repetition); [o, depth := d', tail] for d' = depth -+ 1."""
    out = []
    for o in ops:
        first = [o, 1] if o in ("visit", "walk") else [o]
        for apex in Q.all_positions(depth, 1):
            out.append([first, ["sub", list(apex)]] + _tail(focus, par))
        out.append([first, first] + _tail(focus, par))
        for d2 in (depth - 1, depth + 1):
            if d2 >= 1 and (kind != "f" or d2 <= depth):
                out.append([first, ["depth", d2]] + _tail(focus, par))
                out.append([first, ["depth", d2], first, ["depth", depth]] + _tail(focus, par))
    return out


def history_case(kind, depth, accept, program, coordsys="astronomical", apex=None, delay_ms=0.0, seed=0):
    c = Q.shape_witness(kind, depth, accept, apex, coordsys)
    c.update(program=program, delay_ms=delay_ms, seed=seed)
    return c


def serial_cases(rng, focus, thorough, n_random):
    """In-process (parallel == 1 everywhere) history cases of one driver.  -> (cases, bound text)"""
    cases = []
    dd = (2, 3) if thorough else (2,)
    for depth in dd:
        full = Q.all_positions(depth, 1)
        some = Q.random_accept(rng, depth, 0.8)
        gap = [p for p in full if p not in Q.children((1, 0, 0))]           # (1,0,0) accepted, none of its children
        for kind, acc in (("g", []), ("t", []), ("f", full), ("f", some), ("f", gap)):
            for prog in directed_programs(kind, depth, focus):
                cases.append(history_case(kind, depth, acc, prog, "planetary" if (len(cases) % 3 == 0 and kind != "g") else "astronomical"))
    n_dir = len(cases)
    dch = [1, 2, 2, 3, 3, 4] if not thorough else [1, 2, 3, 3, 4, 4, 5]
    for _ in range(n_random):
        depth = rng.choice(dch)
        kind = rng.choice("gtfff")
        acc = Q.random_accept(rng, depth) if kind == "f" else []
        cases.append(history_case(kind, depth, acc, random_program(rng, kind, depth, acc, focus), rng.choice(["astronomical", "planetary"])))
    bound = ("object history, serial: one Pyramid object per case lives through a program of operations; directed: for depth %s and each of "
             "generic / TOAST / full filter / seeded random filter / filter with a gap tile: every first operation in {3 counters, "
             "visit_leaves, walk, _generator, reduction} x (subpyramid at every apex with 1 <= n <= depth | the operation repeated | "
             "depth -+ 1 | depth changed and restored), then %s (%d programs); %d seeded random programs (depth in %s, 1-3 first "
             "operations, then none / subpyramid / depth change / both in either order with operations in between, then the checks, "
             "plain repetition included); every answer compared with the statement for the configuration in effect, the tail also "
             "with fresh objects of the final configuration"
             % ("/".join(str(d) for d in dd), {"walk": "walk + count_operations", "visit": "visit_leaves + count_leaf_tiles",
                                               "counts": "all counters, visit_leaves, walk, _generator, reduction, all counters again"}[focus],
                n_dir, n_random, sorted(set(dch))))
    return cases, bound


def parallel_cases(rng, focus, thorough, n, workers=(2, 3)):
    """History cases whose tail runs with worker processes (and sometimes an operation before the
    reconfiguration as well).  -> (cases, bound text)"""
    cases = []
    for i in range(n):
        op = {"walk": "walk", "visit": "visit"}.get(focus) or ("walk" if (i // 2) % 2 else "visit")
        w = workers[i % len(workers)]
        kind = "fffgt"[i % 5]
        depth = rng.choice([2, 2, 3] if not thorough else [2, 3, 3, 4])
        acc = Q.random_accept(rng, depth, rng.choice([0.7, 0.85, 0.95])) if kind == "f" else []
        first = _obs_step(rng, 1)
        if i % 4 == 3:
            first = [op, w]                                   # the earlier traversal itself uses worker processes
        prog = [first]
        mode = ("sub", "sub", "sub", "depth", "none")[(i // 5) % 5] if i >= 5 else "sub"
        d = depth
        if mode == "sub":
            prog.append(["sub", list(pick_apex(rng, depth, acc, kind))])
        elif mode == "depth":
            d = depth - 1 if (kind == "f" or rng.random() < 0.5) else depth + 1
            prog.append(["depth", d])
        prog.append([op, w])
        if focus == "counts":
            prog += [[c] for c in COUNTS]
        if i % 2 == 0:
            prog.append([op, w])                              # the same parallel operation again
        cases.append(history_case(kind, depth, acc, prog, rng.choice(["astronomical", "planetary"]), delay_ms=3.0, seed=rng.randrange(10 ** 6)))
    bound = ("object history with worker processes (%s workers): %d seeded programs on generic / TOAST / filtered pyramids of depth 2..%d: "
             "one earlier operation (every 4th time the parallel operation itself), then subpyramid(apex) / a depth change / nothing, then %s with "
             "worker processes, every second time twice; callbacks sleep up to 3 ms (seeded per tile)"
             % ("/".join(str(w) for w in workers), n, 4 if thorough else 3,
                {"walk": "Pyramid.walk", "visit": "Pyramid.visit_leaves"}.get(focus, "Pyramid.visit_leaves / Pyramid.walk (alternating)")))
    return cases, bound


# ---------------------------------------------------------------------------------------------
# glue used by the drivers

def derived_rng(seed, tag):
    """The history scenarios draw from their own generator (derived from the run's seed) so that adding them
    leaves the seeded case streams of the older scenarios untouched."""
    return random.Random("history/%s/%s" % (tag, seed))


def findings(case, result, prefixes):
    """Violations of the scenarios whose name starts with one of ``prefixes`` -> [(obligation, witness, message)]"""
    pre = tuple(prefixes)
    return [("rt/%s/%s" % (s, cl), witness_of(case, **ex), msg) for s, cl, ex, msg in evaluate(case, result) if s.startswith(pre)]


def nontrivial(case):
    """A case exercises the rule when the final configuration has something to visit and the object had a history."""
    kind, _d, acc, _a, _cs = Q.shape_from_witness(case)
    _c, (fd, fa) = configs(case)
    return len(Q.Expect(kind, fd, acc, fa).leaves) > 0 and len(case["program"]) >= 2


def case_key(case):
    import json
    return "hist:" + json.dumps({k: case.get(k) for k in ("kind", "depth", "accept", "apex", "coordsys", "program")}, sort_keys=True)


def replay(obligation, witness, prefixes, watchdog=90):
    """Re-run one recorded history.  Programs with worker processes run in a fresh interpreter under the usual
    two watchdogs and get three tries; an expired watchdog decides nothing."""
    import shutil
    import tempfile
    case = case_from_witness(witness)
    par = max_parallel(case) > 1
    tries = 3 if par else 1
    undecided = 0
    work = tempfile.mkdtemp(prefix="hist_replay_") if par else None
    try:
        for attempt in range(tries):
            case["id"] = attempt
            if par:
                from rt import c01_batch as B
                res = B.dispatch("rt.c13_history", "run_history", [dict(case)], os.path.join(work, "r%d" % attempt), watchdog, batch_size=1, max_workers=1)
                o = res.get(attempt, {"status": "skipped"})
                if o["status"] != "done":
                    undecided += 1
                    continue
                result = o["result"]
            else:
                result = run_history(case)
            hits = [m for ob, _w, m in findings(case, result, prefixes) if ob == obligation]
            if hits:
                return False, hits[0]
        if undecided == tries:
            return True, "undecided: the program did not finish inside the %d s watchdog in %d tries" % (watchdog, tries)
        return True, "obligation %s held in %d run(s) of this program" % (obligation, tries - undecided)
    finally:
        if work:
            shutil.rmtree(work, ignore_errors=True)
