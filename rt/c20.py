"""C20 -- bounded run-time driver: each input file contributes the HDU / WCS the user selected.

Generates multi-extension FITS files whose every image HDU has its own shape and its own pixel
values (value = 100*file + 10*hdu-ish base + 0.01*(row*W+col)) and up to three WCS solutions
(keys ' ', 'A', 'B') with different CRPIX (and, in the "free" sets, CRVAL/CDELT), then asks the
real code for them through every public route and compares with the generation manifest --
the oracle never opens the files through toasty:

  route 'load'            toasty.collection.load(paths | single str, hdu_index=, wcs_key=)
  route 'cli_view'        toasty.cli.entrypoint(['view', '--tile-only', '--hdu-index', ..,
                          '--wcs-key', .., paths..]) with FitsTiler replaced (from outside) by a
                          recorder, i.e. the real argparse set-up + CollectionLoader.create_from_args
  route 'cli_multi_tan'   toasty.cli.entrypoint(['tile-multi-tan', '--hdu-index', k, '--wcs-key', K,
                          '--outdir', .., paths..]) with MultiTanProcessor replaced by a recorder
                          (scalar options only: that is all this sub-command offers)
  route 'tile_fits'       toasty.tile_fits(paths, out_dir, hdu_index=, wcs_key=, parallel=1) run to
                          completion in an isolated process; the deepest tile layer is read back
                          with astropy and must contain exactly the pixels of the selected HDUs,
                          laid out relative to each other as the *selected* WCS solutions say.

Selection semantics (from the statement): scalar -> every file; list -> entry i for file i;
none -> first HDU holding image data (2-D array; empty primaries and tables are skipped),
WCS key none -> primary solution ' '.

Obligations and witness keys
----------------------------
Every witness has: ``route, hdu_index, hdu_index_kind ('none'|'scalar'|'list'), wcs_key,
wcs_key_kind ('none'|'scalar'|'list'), n_files, single_str (input given as one str),
files`` (the complete generation manifest, enough to rebuild the files) and where relevant
``file_pos`` (position in the input list), ``expected``, ``observed``, ``exception``.

* ``rt/collection/selection_raises``     a valid selection raised (``exception``)
* ``rt/images/selected_hdu``             images()[i] is not (shape, pixels) of HDU sel(i) of paths[i]
* ``rt/descriptions/selected_hdu``       descriptions()[i].shape is not that HDU's shape
* ``rt/images/selected_wcs``             images()[i].wcs is not the solution key(i) of that HDU
* ``rt/descriptions/selected_wcs``       same for descriptions()
* ``rt/descriptions_images/agree``       number / order (collection_id) / shape / WCS of descriptions() and images() differ
* ``rt/export_simple/selected_hdu``      export_simple() != [(paths[i], sel(i))]
* ``rt/collection_history/repeatable``   object history / call order: after the pass above (descriptions, images, export_simple,
                                         in that order, each held against the manifest) the SAME collection object is asked again in
                                         another order (``second_order``, one of 5 permutations / repetitions chosen by a checksum of
                                         the selection), and -- route 'load' -- a FRESHLY loaded collection of the same selection is
                                         asked in that other order first; every answer must equal the one of the first pass
                                         (``what``, ``object`` 'same'|'fresh', ``file_pos``, ``observed``, ``first``).  quick: every
                                         sixth selection (by checksum); thorough: every selection.
* ``rt/cli/option_parse``                CollectionLoader got another scalar/list than the option text says (``observed``)
* ``rt/tile_fits/selected_hdu``          tiles do not hold exactly the selected HDUs' pixels (or tile_fits raised / timed out)
* ``rt/tile_fits/selected_wcs``          relative placement of two files' pixels contradicts the selected WCS solutions

Bounds
------
quick   : 7 file sets (1-4 files x 3-6 HDUs; empty or image primary, a binary table before the
          first image, one tile-compressed image HDU); per set: no selection, every scalar valid
          in all files, every per-file list if <= 40 else 40 seeded random ones; WCS key: none,
          ' ', every common scalar, 3 seeded per-file lists; routes load + cli_view for all,
          cli_multi_tan for scalars; tile_fits for <= 12 selections per TAN-grid set.
          + 7 sets whose input list names THE SAME PATH more than once (order [0,0], [0,0,1], [0,1,0],
          [1,0,0], [0,1,0,1], [0,0,0]; one with free WCS): "a list supplies the index or key for
          the file at the same list position" -- position, not path; every per-position HDU list,
          <= 8 per-position key lists, all routes (witness key ``path_order``).  In these sets the
          HDUs / solutions of one file are placed apart (CRPIX2 = 5 + 12*hdu + 70*key) so that two
          extensions of one file never overlap in the tiles.
thorough: 27 file sets incl. 20 seeded random layouts, lists up to 400 per set, 8 key lists,
          tile_fits for <= 60 selections per set; 7 + 8 seeded random repeated-path sets.
Trusted: astropy.io.fits writer/reader and astropy.wcs used to write the files and to read
the tiles back; values are float32-exact by construction.
Not covered: RubinDirectoryCollection; HDU selection by EXTNAME; cubes (NAXIS>2); the TOAST
and HiPS modes of tile_fits; the --blankval option.
"""
import contextlib
import io
import itertools
import json
import os
import warnings

import numpy as np

from rt.common import call_isolated

O_RAISE = "rt/collection/selection_raises"
O_IMG_HDU = "rt/images/selected_hdu"
O_DESC_HDU = "rt/descriptions/selected_hdu"
O_IMG_WCS = "rt/images/selected_wcs"
O_DESC_WCS = "rt/descriptions/selected_wcs"
O_AGREE = "rt/descriptions_images/agree"
O_EXPORT = "rt/export_simple/selected_hdu"
O_CLI = "rt/cli/option_parse"
O_TF_HDU = "rt/tile_fits/selected_hdu"
O_TF_WCS = "rt/tile_fits/selected_wcs"


# ----------------------------------------------------------------------------------------
# file sets: manifest -> files; manifest -> expected content

def hdu_pixels(h):
    H, W = h["shape"]
    a = h["base"] + 0.01 * np.arange(H * W, dtype=np.float64).reshape(H, W)
    return a.astype(h["dtype"])


def _wcs_header(sol, key):
    from astropy.wcs import WCS
    w = WCS(naxis=2)
    w.wcs.ctype = ["RA---TAN", "DEC--TAN"]
    w.wcs.crval = list(sol["crval"])
    w.wcs.crpix = list(sol["crpix"])
    w.wcs.cdelt = list(sol["cdelt"])
    return w.to_header(key=key)


def write_files(files, directory):
    from astropy.io import fits
    os.makedirs(directory, exist_ok=True)
    paths = []
    written = set()
    for fi, f in enumerate(files):
        if f["name"] in written:      # the same path given more than once: one file on disk, listed again
            paths.append(os.path.join(directory, f["name"]))
            continue
        written.add(f["name"])
        hdus = []
        for hi, h in enumerate(f["hdus"]):
            if h["kind"] == "empty":
                hdus.append(fits.PrimaryHDU() if hi == 0 else fits.ImageHDU())
                continue
            if h["kind"] == "table":
                hdus.append(fits.BinTableHDU.from_columns([fits.Column(name="a", format="E", array=np.arange(3.0))]))
                continue
            hdr = fits.Header()
            for key, sol in h["wcs"].items():
                hdr.update(_wcs_header(sol, key))
            data = hdu_pixels(h)
            if hi == 0:
                hdus.append(fits.PrimaryHDU(data, header=hdr))
            elif h["kind"] == "comp":
                hdus.append(fits.CompImageHDU(data, header=hdr, compression_type="GZIP_1"))
            else:
                hdus.append(fits.ImageHDU(data, header=hdr))
        p = os.path.join(directory, f["name"])
        fits.HDUList(hdus).writeto(p, overwrite=True)
        paths.append(p)
    return paths


def image_indices(f):
    return [i for i, h in enumerate(f["hdus"]) if h["kind"] in ("image", "comp")]


def make_file(fi, kinds, keys, rng, free, spread=False):
    """kinds: list of 'empty'|'table'|'image'|'comp'. TAN-grid sets differ in CRPIX only.
    spread: the HDUs (and WCS solutions) of ONE file are placed apart too (sets that list a path
    more than once select several HDUs of one file, which must not overlap in the tiles)."""
    hdus = []
    for hi, kind in enumerate(kinds):
        if kind in ("empty", "table"):
            hdus.append({"kind": kind})
            continue
        H, W = 3 + (hi + fi) % 6, 4 + (2 * hi + fi) % 7
        wcs = {}
        for ki, key in enumerate(keys):
            sol = {"crpix": [5.0 - 40.0 * fi + ((hi + ki) % 3), 5.0 + 3.0 * hi + 32.0 * ki],
                   "crval": [10.0, 20.0], "cdelt": [-0.01, 0.01]}
            if free:
                sol["crval"] = [10.0 + 7 * ki + fi, 20.0 - 3 * ki + hi]
                sol["cdelt"] = [-0.01 * (1 + ki), 0.01 * (1 + ki)]
            if spread:
                sol["crpix"][1] = 5.0 + 12.0 * hi + 70.0 * ki
            wcs[key] = sol
        dtype = "float32"
        if free:
            dtype = ["float32", "float64", "int16", "float32"][(hi + fi) % 4]
        base = float(100 * fi + 10 * hi + 1) if dtype != "int16" else float(100 * fi + 10 * hi + 1)
        h = {"kind": kind, "shape": [H, W], "base": base, "dtype": dtype, "wcs": wcs}
        hdus.append(h)
    return {"name": "f%d.fits" % fi, "hdus": hdus}


def fixed_sets():
    sets = []
    # two files, empty primaries, three images each (the design-time reproducer of the list defect)
    sets.append({"name": "two_by_three", "tan": True, "files": [
        ["empty", "image", "image", "image"], ["empty", "image", "image", "image"]], "keys": [[" ", "A"], [" ", "A"]]})
    # image in the primary of one file, a table before the first image in another
    sets.append({"name": "mixed_primaries", "tan": True, "files": [
        ["image", "image", "image"], ["empty", "table", "image", "image", "image"], ["empty", "image", "table", "image"]],
        "keys": [[" ", "A", "B"], [" ", "A"], [" ", "A", "B"]]})
    sets.append({"name": "four_files", "tan": True, "files": [
        ["empty", "image", "image"], ["image", "image", "image", "image"], ["empty", "empty", "image", "image"],
        ["empty", "table", "table", "image", "image", "image"]], "keys": [[" ", "A"], [" ", "A"], [" ", "A"], [" ", "A", "B"]]})
    sets.append({"name": "single_file", "tan": True, "files": [["empty", "image", "image", "image", "image"]], "keys": [[" ", "A", "B"]]})
    sets.append({"name": "free_wcs", "tan": False, "files": [
        ["empty", "image", "image", "image"], ["image", "table", "image", "image"], ["empty", "image", "image", "image", "image"]],
        "keys": [[" ", "A", "B"], [" ", "A", "B"], [" ", "A", "B"]]})
    sets.append({"name": "compressed", "tan": True, "files": [
        ["empty", "comp", "image"], ["empty", "image", "comp", "image"]], "keys": [[" ", "A"], [" ", "A"]]})
    sets.append({"name": "three_same_layout", "tan": True, "files": [
        ["empty", "image", "image", "image", "image"]] * 3, "keys": [[" ", "A"]] * 3})
    return sets


def dup_sets():
    """Input lists that name THE SAME PATH more than once (two extensions of one multi-extension
    file, ...): "files" are the distinct files, "order" gives the file for each list position."""
    mef = ["empty", "image", "image", "image"]
    mef2 = ["empty", "table", "image", "image"]
    other = ["image", "image", "image"]
    k2, k3 = [" ", "A"], [" ", "A", "B"]
    out = []

    def add(name, files, keys, order, tan=True):
        out.append({"name": name, "tan": tan, "spread": True, "files": files, "keys": keys, "order": order})

    add("dup_mef_twice", [mef], [k3], [0, 0])
    add("dup_mef_mef_other", [mef, other], [k2, k2], [0, 0, 1])
    add("dup_mef_other_mef", [mef, other], [k2, k2], [0, 1, 0])
    add("dup_other_mef_mef", [mef, other], [k2, k2], [1, 0, 0])
    add("dup_interleaved", [mef, mef2], [k2, k2], [0, 1, 0, 1])
    add("dup_mef_thrice", [mef], [k2], [0, 0, 0])
    add("dup_free_wcs", [mef, other], [k3, k2], [0, 0, 1], tan=False)
    return out


def random_dup_set(rng, k):
    d = random_set(rng, k)
    nf = len(d["files"])
    npos = rng.randint(nf + 1, nf + 2)
    while True:
        order = [rng.randrange(nf) for _ in range(npos)]
        if len(set(order)) < len(order):
            break
    d.update({"name": "random_dup_%d" % k, "spread": True, "order": order})
    return d


def random_set(rng, k):
    nf = rng.randint(2, 4)
    files, keys = [], []
    for fi in range(nf):
        first = rng.choice(["empty", "image"])
        n = rng.randint(3, 5)
        kinds = [first] + [rng.choice(["image", "image", "image", "table", "empty" if False else "image"]) for _ in range(n - 1)]
        if "image" not in kinds[1:]:
            kinds[-1] = "image"
        files.append(kinds)
        keys.append([" ", "A"] + (["B"] if rng.random() < 0.5 else []))
    return {"name": "random_%d" % k, "tan": rng.random() < 0.6, "files": files, "keys": keys}


def realise(setdesc, rng):
    spread = bool(setdesc.get("spread"))
    files = [make_file(fi, kinds, setdesc["keys"][fi], rng, not setdesc["tan"], spread) for fi, kinds in enumerate(setdesc["files"])]
    fs = {"name": setdesc["name"], "tan": setdesc["tan"], "files": files}
    if setdesc.get("order") is not None:
        # per-position manifest: entries of one file are the same manifest (same name -> same path)
        fs["files"] = [files[o] for o in setdesc["order"]]
        fs["order"] = list(setdesc["order"])
    return fs


def dup_groups(fs):
    """Lists of positions that name the same path (only groups of >= 2)."""
    by = {}
    for i, f in enumerate(fs["files"]):
        by.setdefault(f["name"], []).append(i)
    return [g for g in by.values() if len(g) > 1]


def differs_on_dups(fs, sel):
    """A per-position list that gives different entries to (some) positions naming the same path."""
    return isinstance(sel, list) and any(len(set(sel[i] for i in g)) > 1 for g in dup_groups(fs))


# ----------------------------------------------------------------------------------------
# selection semantics (from the statement)

def kind_of(sel):
    if sel is None:
        return "none"
    return "list" if isinstance(sel, list) else "scalar"


def expected_hdu(files, i, hdu_sel):
    if hdu_sel is None:
        return image_indices(files[i])[0]
    if isinstance(hdu_sel, list):
        return hdu_sel[i]
    return hdu_sel


def expected_key(i, wcs_sel):
    if wcs_sel is None:
        return " "
    if isinstance(wcs_sel, list):
        return wcs_sel[i]
    return wcs_sel


def selections_for(fs, rng, max_lists, n_keylists):
    files = fs["files"]
    valid = [image_indices(f) for f in files]
    common = sorted(set.intersection(*[set(v) for v in valid]))
    hdu_sels = [None] + common
    total = 1
    for v in valid:
        total *= len(v)
    if total <= max_lists:
        lists = [list(t) for t in itertools.product(*valid)]
    else:
        seen = set()
        while len(seen) < max_lists:
            seen.add(tuple(rng.choice(v) for v in valid))
        lists = [list(t) for t in sorted(seen)]
    hdu_sels += lists
    keysets = []
    for i, f in enumerate(files):
        ks = None
        for h in f["hdus"]:
            if h["kind"] in ("image", "comp"):
                ks = sorted(h["wcs"].keys())
                break
        keysets.append(ks)
    common_keys = sorted(set.intersection(*[set(k) for k in keysets]))
    key_sels = [None] + common_keys
    seen = set()
    tries = 0
    if fs.get("order") is not None:
        allk = list(itertools.product(*keysets))
        if len(allk) <= n_keylists:
            seen = set(allk)
        else:   # half of the lists give different keys to positions naming the same path
            want = [t for t in allk if differs_on_dups(fs, list(t))]
            seen = set(rng.sample(want, min(len(want), n_keylists // 2)))
    while len(seen) < n_keylists and tries < 200:
        tries += 1
        t = tuple(rng.choice(k) for k in keysets)
        seen.add(t)
    key_sels += [list(t) for t in sorted(seen)]
    return hdu_sels, key_sels


# ----------------------------------------------------------------------------------------
# observation through the routes that hand back a collection

def _opt_text(sel):
    if isinstance(sel, list):
        return ",".join(str(s) for s in sel)
    return str(sel)


def _get_collection(route, paths, hdu_sel, wcs_sel, single_str, scratch):
    """Return (collection, parsed) where parsed = (hdu_index, wcs_key) the loader ended up with
    (None when the route gives no access to it)."""
    import toasty.collection as tc
    if route == "load":
        kw = {}
        if hdu_sel is not None:
            kw["hdu_index"] = hdu_sel
        if wcs_sel is not None:
            kw["wcs_key"] = wcs_sel
        src = paths[0] if single_str else list(paths)
        return tc.load(src, **kw), None
    import toasty.cli as cli
    captured = []
    if route == "cli_view":
        import toasty.fits_tiler as ft

        class Recorder(object):
            def __init__(self, coll, *a, **k):
                captured.append(coll)
                self.out_dir = scratch
                self.builder = None

            def tile(self, *a, **k):
                return self

        args = ["view", "--tile-only"]
        if hdu_sel is not None:
            args += ["--hdu-index", _opt_text(hdu_sel)]
        if wcs_sel is not None:
            args += ["--wcs-key=" + _opt_text(wcs_sel)]
        args += list(paths)
        orig = ft.FitsTiler
        ft.FitsTiler = Recorder
        try:
            with contextlib.redirect_stdout(io.StringIO()):
                cli.entrypoint(args)
        finally:
            ft.FitsTiler = orig
    elif route == "cli_multi_tan":
        import toasty.multi_tan as mt

        class Recorder(object):
            def __init__(self, coll, *a, **k):
                captured.append(coll)

            def compute_global_pixelization(self, builder):
                return self

            def tile(self, *a, **k):
                return self

        args = ["tile-multi-tan", "--outdir", os.path.join(scratch, "mt_out")]
        if hdu_sel is not None:
            args += ["--hdu-index", _opt_text(hdu_sel)]
        if wcs_sel is not None:
            args += ["--wcs-key=" + _opt_text(wcs_sel)]
        args += list(paths)
        orig = mt.MultiTanProcessor
        mt.MultiTanProcessor = Recorder
        try:
            with contextlib.redirect_stdout(io.StringIO()):
                cli.entrypoint(args)
        finally:
            mt.MultiTanProcessor = orig
    else:
        raise ValueError(route)
    if len(captured) != 1:
        raise RuntimeError("checker: route %s did not hand a collection to the recorder (%d)" % (route, len(captured)))
    coll = captured[0]
    return coll, (getattr(coll, "_hdu_index", "?"), getattr(coll, "_wcs_key", "?"))


def _wcs_params(w):
    return {"crpix": [float(v) for v in w.wcs.crpix], "crval": [float(v) for v in w.wcs.crval],
            "scale": [float(v) for v in np.asarray(w.pixel_scale_matrix).ravel()]}


def _wcs_matches(w, sol):
    p = _wcs_params(w)
    exp_scale = [sol["cdelt"][0], 0.0, 0.0, sol["cdelt"][1]]
    return (np.allclose(p["crpix"], sol["crpix"], atol=1e-9) and np.allclose(p["crval"], sol["crval"], atol=1e-9)
            and np.allclose(p["scale"], exp_scale, atol=1e-12))


O_HIST = "rt/collection_history/repeatable"
_ORDERS = (("images", "descriptions", "export_simple"), ("export_simple", "images", "descriptions"), ("images", "images", "descriptions"),
           ("descriptions", "descriptions", "images"), ("images", "export_simple", "descriptions", "images"))


def _gather(coll, what):
    if what == "export_simple":
        return [tuple(t) for t in coll.export_simple()]
    items = []
    for it in getattr(coll, what)():
        d = {"shape": tuple(int(s) for s in it.shape), "wcs": it.wcs, "id": getattr(it, "collection_id", None)}
        if what == "images":
            d["data"] = np.array(it.asarray())
        items.append(d)
    return items


def _digest(what, items):
    if what == "export_simple":
        return [[os.path.basename(p), k] for p, k in items]
    out = []
    for it in items:
        d = [os.path.basename(str(it["id"])), list(it["shape"]), _wcs_params(it["wcs"]) if it["wcs"] is not None else None]
        if what == "images":
            a = np.ascontiguousarray(it["data"])
            d.append([str(a.dtype), float(np.nansum(a.astype(np.float64))), float(a.ravel()[0]) if a.size else None])
        out.append(d)
    return out


def _history_wanted(route, hdu_sel, wcs_sel):
    import zlib
    c = zlib.crc32(json.dumps([route, hdu_sel, wcs_sel]).encode())
    return c, (os.environ.get("VERIF_TIER") == "thorough" or c % 6 == 0)


def check_history(coll, first, route, paths, hdu_sel, wcs_sel, single_str, scratch):
    """Second pass in another order on the same object, and (route 'load') on a freshly loaded collection.
    ``first``: results of the first pass ({what: items | None})."""
    c, wanted = _history_wanted(route, hdu_sel, wcs_sel)
    if not wanted:
        return []
    order = _ORDERS[(c // 6) % len(_ORDERS)]
    fails = []
    objs = [("same", coll)]
    if route == "load":
        try:
            objs.append(("fresh", _get_collection(route, paths, hdu_sel, wcs_sel, single_str, scratch)[0]))
        except Exception:
            pass            # building is judged by the first pass
    for label, obj in objs:
        for what in order:
            if first.get(what) is None:
                continue
            try:
                got = _digest(what, _gather(obj, what))
            except Exception as e:
                fails.append((O_HIST, {"what": what, "object": label, "second_order": list(order), "observed": repr(e), "first": "answered"},
                              "%s() on the %s collection raised %r in the order %s although it answered in the first pass" % (what, label, e, list(order))))
                break
            want = _digest(what, first[what])
            if got != want:
                pos = next((i for i, (a, b) in enumerate(zip(got, want)) if a != b), min(len(got), len(want)))
                fails.append((O_HIST, {"what": what, "object": label, "second_order": list(order), "file_pos": pos,
                                       "observed": got[pos] if pos < len(got) else None, "first": want[pos] if pos < len(want) else None},
                              "%s() asked in the order %s on %s answers differently from the first pass (descriptions, images, export_simple) at "
                              "item %d: %r vs %r" % (what, list(order), "the same collection object" if label == "same" else "a freshly loaded collection",
                                                     pos, got[pos] if pos < len(got) else None, want[pos] if pos < len(want) else None)))
                break
    return fails


def check_selection(fs, paths, route, hdu_sel, wcs_sel, single_str, scratch):
    """One case: returns list of (obligation, extra, message)."""
    warnings.simplefilter("ignore")
    files = fs["files"]
    n = len(files)
    fails = []
    try:
        coll, parsed = _get_collection(route, paths, hdu_sel, wcs_sel, single_str, scratch)
    except SystemExit as e:
        return [(O_RAISE, {"exception": "SystemExit(%r)" % (e.code,), "stage": "build"}, "route %s exited: %r" % (route, e.code))]
    except RuntimeError as e:
        if str(e).startswith("checker:"):
            raise
        return [(O_RAISE, {"exception": repr(e), "stage": "build"}, "building the collection raised %r" % (e,))]
    except Exception as e:
        return [(O_RAISE, {"exception": repr(e), "stage": "build"}, "building the collection raised %r" % (e,))]
    if parsed is not None and route == "cli_view":
        got_h, got_k = parsed
        # option text semantics: "k" -> scalar, "a,b" -> list; same for keys
        exp_h = hdu_sel if not (isinstance(hdu_sel, list) and len(hdu_sel) == 1) else hdu_sel[0]
        exp_k = wcs_sel if not (isinstance(wcs_sel, list) and len(wcs_sel) == 1) else wcs_sel[0]
        if got_h != "?" and (got_h != exp_h or type(got_h) is not type(exp_h)):
            fails.append((O_CLI, {"option": "--hdu-index", "observed": repr(got_h), "expected": repr(exp_h)},
                          "--hdu-index %r parsed to %r, expected %r" % (_opt_text(hdu_sel) if hdu_sel is not None else None, got_h, exp_h)))
        if got_k != "?" and exp_k is not None and got_k != exp_k:
            fails.append((O_CLI, {"option": "--wcs-key", "observed": repr(got_k), "expected": repr(exp_k)},
                          "--wcs-key %r parsed to %r, expected %r" % (_opt_text(wcs_sel), got_k, exp_k)))
    exp = []
    for i in range(n):
        hi = expected_hdu(files, i, hdu_sel)
        h = files[i]["hdus"][hi]
        exp.append((hi, h, h["wcs"][expected_key(i, wcs_sel)]))
    results = {}
    for what in ("descriptions", "images", "export_simple"):
        try:
            if what == "export_simple":
                results[what] = [tuple(t) for t in coll.export_simple()]
            else:
                items = []
                for it in getattr(coll, what)():
                    d = {"shape": tuple(int(s) for s in it.shape), "wcs": it.wcs, "id": getattr(it, "collection_id", None)}
                    if what == "images":
                        d["data"] = np.array(it.asarray())
                    items.append(d)
                results[what] = items
        except Exception as e:
            fails.append((O_RAISE, {"exception": repr(e), "stage": what}, "%s() raised %r for a valid selection" % (what, e)))
            results[what] = None
    ex = results["export_simple"]
    if ex is not None:
        want = [(paths[i], exp[i][0]) for i in range(n)]
        if ex != want:
            fails.append((O_EXPORT, {"observed": [[os.path.basename(p), k] for p, k in ex],
                                     "expected": [[os.path.basename(p), k] for p, k in want]},
                          "export_simple() = %r, expected HDU indices %r" % ([k for _, k in ex], [k for _, k in want])))
    for what, o_hdu, o_wcs in (("descriptions", O_DESC_HDU, O_DESC_WCS), ("images", O_IMG_HDU, O_IMG_WCS)):
        items = results[what]
        if items is None:
            continue
        if len(items) != n:
            fails.append((o_hdu, {"observed": len(items), "expected": n}, "%s() yielded %d items for %d input files" % (what, len(items), n)))
            continue
        for i, it in enumerate(items):
            hi, h, sol = exp[i]
            bad = None
            if it["id"] != paths[i]:
                bad = "item %d comes from %r, expected input %d (%s)" % (i, it["id"], i, os.path.basename(paths[i]))
            elif list(it["shape"]) != list(h["shape"]):
                bad = "item %d has shape %r, HDU %d of %s has %r" % (i, it["shape"], hi, files[i]["name"], tuple(h["shape"]))
            elif what == "images" and not np.array_equal(it["data"].astype(np.float64), hdu_pixels(h).astype(np.float64)):
                bad = "item %d pixel values are not those of HDU %d of %s (first pixel %r, expected %r)" % (
                    i, hi, files[i]["name"], float(it["data"].ravel()[0]), float(hdu_pixels(h).ravel()[0]))
            if bad:
                fails.append((o_hdu, {"file_pos": i, "expected": {"hdu": hi, "shape": h["shape"]}, "observed": {"shape": list(it["shape"])}},
                              "%s(): %s" % (what, bad)))
                break
            if it["wcs"] is None or not _wcs_matches(it["wcs"], sol):
                fails.append((o_wcs, {"file_pos": i, "expected": sol, "observed": _wcs_params(it["wcs"]) if it["wcs"] is not None else None},
                              "%s(): item %d does not carry WCS solution %r of HDU %d of %s" % (what, i, expected_key(i, wcs_sel), hi, files[i]["name"])))
                break
    d, im = results["descriptions"], results["images"]
    if d is not None and im is not None:
        bad = None
        if len(d) != len(im):
            bad = "descriptions() yields %d items, images() %d" % (len(d), len(im))
        else:
            for i, (a, b) in enumerate(zip(d, im)):
                if a["id"] != b["id"]:
                    bad = "item %d: description of %r, image of %r" % (i, a["id"], b["id"])
                elif a["shape"] != b["shape"]:
                    bad = "item %d: description shape %r, image shape %r" % (i, a["shape"], b["shape"])
                elif _wcs_params(a["wcs"]) != _wcs_params(b["wcs"]):
                    bad = "item %d: description and image carry different WCS" % i
                if bad:
                    break
        if bad:
            fails.append((O_AGREE, {"observed": bad}, bad))
    try:
        fails += check_history(coll, results, route, paths, hdu_sel, wcs_sel, single_str, scratch)
    except Exception as e:
        fails.append((O_HIST, {"what": "?", "object": "?", "observed": repr(e)}, "second pass over the collection raised %r" % (e,)))
    return fails


def worker_batch(fs, directory, jobs):
    """Pool worker: write the set once (per process+set), evaluate jobs = [(route, hdu, wcs, single_str)]"""
    warnings.simplefilter("ignore")
    d = os.path.join(directory, "p%d_%s" % (os.getpid(), fs["name"]))
    paths = write_files(fs["files"], d)
    out = []
    for route, hdu_sel, wcs_sel, single_str in jobs:
        try:
            out.append(check_selection(fs, paths, route, hdu_sel, wcs_sel, single_str, d))
        except Exception:
            import traceback
            out.append([("CHECKER", {}, traceback.format_exc()[-1500:])])
    return out


# ----------------------------------------------------------------------------------------
# tile_fits, end to end (isolated process)

def _mosaic(out_dir):
    """Deepest layer of an L/Y/YX FITS pyramid as one array (read with astropy only)."""
    from astropy.io import fits
    levels = sorted(int(x) for x in os.listdir(out_dir) if x.isdigit())
    if not levels:
        return None, None
    L = levels[-1]
    n = 2 ** L
    mos = np.full((256 * n, 256 * n), np.nan)
    base = os.path.join(out_dir, str(L))
    for ys in os.listdir(base):
        for fn in os.listdir(os.path.join(base, ys)):
            stem = fn.rsplit(".", 1)[0]
            yy, xx = stem.split("_")
            a = fits.getdata(os.path.join(base, ys, fn))
            mos[256 * int(yy):256 * (int(yy) + 1), 256 * int(xx):256 * (int(xx) + 1)] = a
    return mos, L


def tile_fits_batch(fs, directory, jobs):
    """Runs inside call_isolated. jobs = [(hdu_sel, wcs_sel, single_str)] -> list of fail lists."""
    warnings.simplefilter("ignore")
    import shutil
    import toasty
    files = fs["files"]
    n = len(files)
    paths = write_files(files, os.path.join(directory, "in"))
    res = []
    for k, (hdu_sel, wcs_sel, single_str) in enumerate(jobs):
        fails = []
        out = os.path.join(directory, "out%d" % k)
        kw = {}
        if hdu_sel is not None:
            kw["hdu_index"] = hdu_sel
        if wcs_sel is not None:
            kw["wcs_key"] = wcs_sel
        try:
            with contextlib.redirect_stdout(io.StringIO()):
                toasty.tile_fits(paths[0] if single_str else list(paths), out_dir=out, parallel=1, override=True, **kw)
        except Exception as e:
            res.append([(O_TF_HDU, {"exception": repr(e)}, "tile_fits raised %r for a valid selection" % (e,))])
            continue
        mos, L = _mosaic(out)
        if mos is None:
            res.append([(O_TF_HDU, {"observed": "no tiles"}, "tile_fits wrote no tile layer")])
            continue
        finite = np.isfinite(mos)
        centres = []
        claimed = np.zeros(mos.shape, dtype=bool)
        for i in range(n):
            hi = expected_hdu(files, i, hdu_sel)
            h = files[i]["hdus"][hi]
            sol = h["wcs"][expected_key(i, wcs_sel)]
            want = np.sort(hdu_pixels(h).astype(np.float64).ravel())
            sel = finite & (mos >= h["base"] - 0.004) & (mos < h["base"] + 0.995)
            got = np.sort(mos[sel].ravel())
            if len(got) != len(want) or not np.allclose(got, want, atol=2e-3):
                present = sorted(set(int(v) for v in np.floor(mos[finite] + 0.004)))
                fails.append((O_TF_HDU, {"file_pos": i, "expected": {"hdu": hi, "base": h["base"], "n_pixels": len(want)},
                                         "observed": {"n_pixels_with_that_base": len(got), "bases_present": present[:12]}},
                              "the tiles hold %d pixels of HDU %d of %s (expected %d); pixel bases present: %r" % (
                                  len(got), hi, files[i]["name"], len(want), present[:12])))
                centres.append(None)
                continue
            claimed |= sel
            ys, xs = np.where(sel)
            H, W = h["shape"]
            if ys.max() - ys.min() + 1 != H or xs.max() - xs.min() + 1 != W:
                fails.append((O_TF_HDU, {"file_pos": i, "expected": {"hdu": hi, "shape": [H, W]},
                                         "observed": {"bbox": [int(ys.max() - ys.min() + 1), int(xs.max() - xs.min() + 1)]}},
                              "pixels of HDU %d of %s occupy a %dx%d box, not %dx%d" % (hi, files[i]["name"], ys.max() - ys.min() + 1, xs.max() - xs.min() + 1, H, W)))
            # centre of the image relative to the reference point, in (FITS) pixels
            centres.append(((xs.min() + xs.max()) / 2.0, (ys.min() + ys.max()) / 2.0,
                            (W + 1) / 2.0 - sol["crpix"][0], (H + 1) / 2.0 - sol["crpix"][1]))
        if not fails and (finite & ~claimed).any():
            fails.append((O_TF_HDU, {"observed": {"extra_pixels": int((finite & ~claimed).sum())}},
                          "the tiles hold %d defined pixels that belong to no selected HDU" % int((finite & ~claimed).sum())))
        if not fails and fs["tan"]:
            c0 = centres[0]
            for i in range(1, n):
                c = centres[i]
                dx_obs, dy_obs = c[0] - c0[0], c[1] - c0[1]
                dx_exp, dy_exp = c[2] - c0[2], c[3] - c0[3]
                if abs(dx_obs - dx_exp) > 1e-6 or abs(abs(dy_obs) - abs(dy_exp)) > 1e-6:
                    fails.append((O_TF_WCS, {"file_pos": i, "expected": {"dx": dx_exp, "abs_dy": abs(dy_exp)},
                                             "observed": {"dx": dx_obs, "abs_dy": abs(dy_obs)}},
                                  "file %d lies (%g, |%g|) px from file 0 in the tiles; the selected WCS solutions say (%g, |%g|)" % (
                                      i, dx_obs, dy_obs, dx_exp, dy_exp)))
                    break
        shutil.rmtree(out, ignore_errors=True)
        res.append(fails)
    return res


# ----------------------------------------------------------------------------------------

def _witness(fs, route, hdu_sel, wcs_sel, single_str, extra):
    w = {"route": route, "hdu_index": hdu_sel, "hdu_index_kind": kind_of(hdu_sel), "wcs_key": wcs_sel,
         "wcs_key_kind": kind_of(wcs_sel), "n_files": len(fs["files"]), "single_str": single_str,
         "set": fs["name"], "tan": fs["tan"], "files": fs["files"]}
    if fs.get("order") is not None:
        w["path_order"] = fs["order"]      # list position -> distinct file (the same path occurs more than once)
    w.update(extra)
    return w


def run(ctx):
    from concurrent.futures import ProcessPoolExecutor
    import multiprocessing as mp
    thorough = ctx.thorough
    rng = ctx.rng
    descs = fixed_sets()
    if thorough:
        descs += [random_set(rng, k) for k in range(20)]
    n_plain = len(descs)
    descs += dup_sets()
    if thorough:
        descs += [random_dup_set(rng, k) for k in range(8)]
    sets = [realise(d, rng) for d in descs]
    max_lists = 400 if thorough else 40
    n_keylists = 8 if thorough else 3
    n_keylists_dup = 16 if thorough else 8
    n_tf = 60 if thorough else 12
    ctx.bound("%d generated file sets (1-4 files x 3-6 HDUs; empty/image primaries, binary tables before images, a tile-compressed "
              "image HDU; 2-3 WCS solutions per HDU)" % len(sets))
    ctx.bound("HDU selection: none, every scalar valid in all files, every per-file list of valid image HDUs if <= %d else %d seeded "
              "random ones; WCS key: none, every common scalar, %d seeded per-file lists" % (max_lists, max_lists, n_keylists))
    ctx.bound("object history / call order: for every %s selection (by checksum) the collection object that answered descriptions(), images(), "
              "export_simple() is asked again in one of 5 other orders (images first; export_simple first; images twice; descriptions twice; "
              "images - export_simple - descriptions - images), and for route load a freshly loaded collection is asked in that other order "
              "first; all answers must equal those of the first pass" % ("" if ctx.thorough else "sixth"))
    ctx.bound("routes: collection.load (list and single-str input) and `toasty view` CLI for every selection; `toasty tile-multi-tan` CLI "
              "for scalar selections; tile_fits end-to-end (TAN mode, parallel=1) for <= %d selections per set" % n_tf)
    ctx.bound("%d of these sets name THE SAME PATH more than once in the input list ([mef, mef], [mef, mef, other], [mef, other, mef], "
              "[other, mef, mef], [a, b, a, b], [mef, mef, mef], [mef, mef, other] with free WCS%s): every per-position HDU list (the positions of one file get "
              "different HDUs), <= %d per-position key lists (all if fewer), same routes; tile_fits picks start with lists that "
              "differ on the repeated path" % (len(sets) - n_plain, ", 8 seeded random orders with repeats" if thorough else "", n_keylists_dup))
    ctx.assume("astropy.io.fits / astropy.wcs write the generated files and read tiles back faithfully")
    ctx.assume("CLI routes: FitsTiler / MultiTanProcessor are replaced by recorders from outside the repo; the argparse set-up, "
               "CollectionLoader.create_from_args and load_paths are the real ones")
    # ---- job lists
    pool_jobs = []   # (set index, [jobs])
    tf_jobs = []
    for si, fs in enumerate(sets):
        is_dup = fs.get("order") is not None
        hdu_sels, key_sels = selections_for(fs, rng, max_lists, n_keylists_dup if is_dup else n_keylists)
        jobs = []
        n = len(fs["files"])
        for hs in hdu_sels:
            # every HDU selection with the default key and with 2 other key selections; every key selection at least with 2 HDU selections
            ks_for = [None] + rng.sample(key_sels[1:], min(2, len(key_sels) - 1))
            if is_dup:   # plus one key list that differs on the repeated path
                dk = [ks for ks in key_sels if differs_on_dups(fs, ks) and ks not in ks_for]
                if dk:
                    ks_for.append(rng.choice(dk))
            for ks in ks_for:
                jobs.append(("load", hs, ks, False))
                jobs.append(("cli_view", hs, ks, False))
                if n == 1:
                    jobs.append(("load", hs, ks, True))
                if not isinstance(hs, list) and not isinstance(ks, list) and hs is not None:
                    jobs.append(("cli_multi_tan", hs, ks, False))
        for ks in key_sels:
            for hs in rng.sample(hdu_sels, min(2, len(hdu_sels))):
                jobs.append(("load", hs, ks, False))
        # de-duplicate
        seen, uniq = set(), []
        for j in jobs:
            k = json.dumps(j)
            if k not in seen:
                seen.add(k)
                uniq.append(j)
        for i in range(0, len(uniq), 25):
            pool_jobs.append((si, uniq[i:i + 25]))
        # tile_fits
        cand = [(hs, ks) for hs in hdu_sels for ks in key_sels]
        pick = []
        firsts = [(None, None)] + [(hs, None) for hs in hdu_sels if isinstance(hs, list)][:3] + \
                 [(hs, ks) for hs in hdu_sels[1:3] for ks in key_sels if isinstance(ks, list)][:2] + \
                 [(hs, ks) for hs in hdu_sels if not isinstance(hs, list) and hs is not None for ks in key_sels if ks not in (None, " ") and not isinstance(ks, list)][:2]
        if is_dup:
            dh = [hs for hs in hdu_sels if differs_on_dups(fs, hs)]
            dk = [ks for ks in key_sels if differs_on_dups(fs, ks)]
            firsts = [(hs, None) for hs in dh[:3]] + [(hs, ks) for hs, ks in zip(dh[3:6], dk)] + \
                     [(hs, ks) for hs, ks in zip(rng.sample(dh, min(2, len(dh))), rng.sample(dk, min(2, len(dk))))] + firsts

            def one_place_per_hdu(c):
                # the tile oracle identifies an HDU's pixels by value: one HDU may not be placed twice at different places
                place = {}
                for i, f in enumerate(fs["files"]):
                    k = (f["name"], expected_hdu(fs["files"], i, c[0]))
                    if place.setdefault(k, expected_key(i, c[1])) != expected_key(i, c[1]):
                        return False
                return True

            firsts = [c for c in firsts if one_place_per_hdu(c)]
            cand = [c for c in cand if one_place_per_hdu(c)]
        for c in firsts + rng.sample(cand, min(len(cand), n_tf)):
            if c not in pick and len(pick) < n_tf:
                pick.append(c)
        if fs["tan"]:   # the pixel-exact tile oracle needs the common-TAN-grid mode (no resampling)
            tf_jobs.append((si, [(hs, ks, n == 1 and k % 2 == 1) for k, (hs, ks) in enumerate(pick)]))
    # ---- run
    reported = {}

    def report(obl, wit, msg):
        c = reported.get(obl, 0)
        if c < 5:
            ctx.violation(obl, wit, msg)
        reported[obl] = c + 1

    nproc = min(14, max(1, (mp.cpu_count() or 2) - 1))
    # import the heavy modules once, before forking the pool
    import astropy.io.fits, astropy.wcs  # noqa: F401
    import toasty.cli, toasty.collection, toasty.fits_tiler, toasty.multi_tan  # noqa: F401
    tf_timeout = 240 if thorough else 40
    with ProcessPoolExecutor(max_workers=nproc, mp_context=mp.get_context("fork")) as ppool:
        # the isolated tile_fits batches are launched from pool workers (no threads in the forking parent)
        tf_futs = [(si, jobs, ppool.submit(call_isolated, "rt.c20", "tile_fits_batch",
                                           {"fs": sets[si], "directory": os.path.join(ctx.workdir, "tf%d" % si), "jobs": jobs}, tf_timeout))
                   for si, jobs in tf_jobs]
        futs = [(si, jobs, ppool.submit(worker_batch, sets[si], ctx.workdir, jobs)) for si, jobs in pool_jobs]
        for si, jobs, fut in futs:
            fs = sets[si]
            for (route, hs, ks, single), fails in zip(jobs, fut.result()):
                ctx.case((fs["name"], route, json.dumps(hs), json.dumps(ks), single))
                ctx.monitor("c20.selections_checked")
                if hs is not None and ks is not None and isinstance(hs, list) and len(ctx.samples) < 6:
                    ctx.sample({"set": fs["name"], "route": route, "hdu_index": hs, "wcs_key": ks})
                for obl, extra, msg in fails:
                    if obl == "CHECKER":
                        raise RuntimeError("checker error in rt/c20: %s" % msg)
                    report(obl, _witness(fs, route, hs, ks, single, extra), msg)
        for si, jobs, fut in tf_futs:
            fs = sets[si]
            status, result, secs = fut.result()
            if status != "ok":
                msg = "tile_fits batch on set %s: %s after %.0fs %s" % (fs["name"], status, secs, (result or {}).get("stderr", "")[-600:] if result else "")
                if status == "timeout":
                    hs, ks, single = jobs[0]
                    report(O_TF_HDU, _witness(fs, "tile_fits", hs, ks, single, {"exception": "timeout", "batch": [[j[0], j[1]] for j in jobs]}), msg)
                    continue
                raise RuntimeError("checker error in rt/c20: " + msg)
            for (hs, ks, single), fails in zip(jobs, result):
                ctx.case((fs["name"], "tile_fits", json.dumps(hs), json.dumps(ks), single))
                ctx.monitor("c20.tile_fits_runs")
                for obl, extra, msg in fails:
                    report(obl, _witness(fs, "tile_fits", hs, ks, single, extra), msg)
    for obl, c in reported.items():
        if c > 5:
            ctx.note("%s failed in %d cases (first 5 reported)" % (obl, c))


def replay(obligation, witness):
    import shutil
    import tempfile
    fs = {"name": witness.get("set", "replay"), "tan": witness.get("tan", True), "files": witness["files"]}
    hs, ks, single = witness.get("hdu_index"), witness.get("wcs_key"), bool(witness.get("single_str"))
    d = tempfile.mkdtemp(prefix="verif_c20_replay_")
    try:
        if witness["route"] == "tile_fits":
            status, result, secs = call_isolated("rt.c20", "tile_fits_batch", {"fs": fs, "directory": d, "jobs": [[hs, ks, single]]}, 120)
            if status == "timeout":
                return False, "tile_fits did not return within 120 s"
            if status != "ok":
                return True, "could not replay: %s %s" % (status, result)
            fails = [tuple(f) for f in result[0]]
        else:
            paths = write_files(fs["files"], os.path.join(d, "in"))
            fails = check_selection(fs, paths, witness["route"], hs, ks, single, d)
    finally:
        shutil.rmtree(d, ignore_errors=True)
    same = [f for f in fails if f[0] == obligation]
    if same:
        return False, same[0][2]
    return True, "obligation holds on this witness" + (" (other obligations fail: %s)" % sorted(set(f[0] for f in fails)) if fails else "")
