"""C04 (bounded run-time tier) -- TOAST tiles partition the sphere, nest exactly and do not
depend on the construction route.

Oracle: rt/c04_sphere.py, an independent 3-vector model of the *documented* layout (octahedron
unfolded on a square, north pole at the centre, south pole at the corners, longitude 0 to the
right for sky maps / to the left for planetary maps, 90 deg up / down, recursive midpoint
subdivision, diagonal = the octahedron edge on the equator, inherited by the children).  No
formula of toasty is reused (toasty works in lon/lat with atan2 midpoints and L'Huilier areas).

Obligations (names) and witness keys
------------------------------------
All witnesses carry ``coordsys`` ('astronomical' | 'planetary'), ``route`` and ``n, x, y``.

rt/<route>/corners          corner k of the tile is not the documented lattice point
                            {coordsys, route, n, x, y, corner, dist, [depth, bottom_only, filter, lat, lon]}
rt/<route>/increasing       diagonal orientation differs from the documented one   {.., got, expected}
rt/<route>/positions        the route yields a wrong set of positions (missing / extra / repeated)
                            {coordsys, route, depth, bottom_only, [filter], missing, extra, repeated}
rt/<route>/raises           the route raised on a valid position                     {.., error}
    <route> in generate_tiles | generate_tiles_filtered | create_single_tile | toast_tile_for_point |
               Pyramid.visit_leaves (the (pos, tile) pairs handed to the callback of a serial leaf visit of
               Pyramid.new_toast / new_toast_filtered / .subpyramid(apex); witnesses add
               {pyramid, depth, filter, apex}; positions also lists ``mislabelled`` leaves delivered
               without a tile or with the tile of another position)
rt/routes/agree             two routes give different (corners, increasing) for one position
                            {coordsys, n, x, y, route, other_route, dist, increasing, other_increasing}
                            for route = Pyramid.visit_leaves the witness adds {pyramid, depth, filter, apex} and
                            other_route is generate_tiles (create_single_tile beyond the enumerated levels);
                            point look-up as the route of obtaining tile (n, x, y) (look-up of a point
                            strictly inside the documented tile) adds {depth, lat, lon, weights, got}:
                            weights = null (tile centre) or the four positive corner weights of the
                            point; got = the position the look-up handed back; the same case also
                            reports rt/toast_tile_for_point/positions {.., missing, extra} when
                            got != (n, x, y)
rt/tiles/shared_corners     two tiles of one level touching a lattice point disagree about it
                            {coordsys, n, x, y, corner, other_x, other_y, other_corner, dist}
rt/tiles/nesting            a child does not keep its parent's corner / its new corner is not the
                            great-circle midpoint of the parent's edge or diagonal
                            {coordsys, n, x, y, what, dist}
rt/toast_tile_area/total    sum of areas of level n differs from 4 pi             {coordsys, n, total}
rt/toast_tile_area/children area(tile) != sum area(children)                      {coordsys, n, x, y, area, children}
rt/toast_tile_area/value    area(tile) != independent spherical area              {coordsys, n, x, y, area, expected}

Bounds
------
quick   : full enumeration (bottom_only False; True to depth 6) to depth 8, both systems; shared
          corners / nesting on those levels; areas exhaustively to depth 7; create_single_tile
          exhaustively to depth 5 + 800 random positions of depth <= 24; 60 filtered enumerations
          (depth <= 6); 500 point look-ups (depth <= 14); point look-up as a construction route:
          every position of levels 1..5 at its centre and at one random interior point + 600
          random positions of depth 6..14, evenly over the four level-1 quadrants, compared with
          the enumerated tile (create_single_tile beyond the enumerated levels); Pyramid visitors
          (visit_leaves of new_toast to depth 4, 24 filtered / sub-pyramid / both cases of depth <= 4)
          [all numbers per coordinate system].
thorough: enumeration to depth 9; areas to depth 8; single tiles exhaustively to depth 6 + 6000
          random positions to depth 24; 300 filtered enumerations (depth <= 8); 3000 look-ups;
          look-up by position: levels 1..6 exhaustively + 4000 random positions to depth 14;
          Pyramid visitors to depth 6, 120 filtered / sub-pyramid cases.

Tolerances: sky positions compared as unit vectors, chord <= 1e-12 (rounding of <= 24 chained
midpoints is ~1e-15); areas |a - ref| <= 1e-9 * ref + 1e-13 (toast_tile_area carries a constant
~1e-15 absolute rounding error from arccos, measured; a wrong tile is off by >= 25 %).

Trusted: numpy; the model of the documentation in rt/c04_sphere.py.
Not covered: depth 0 (no corners exist: generate_tiles skips it, create_single_tile documents a
ValueError, toast_tile_for_point returns a corner-less tile).
"""
import math

import numpy as np

from rt import c04_sphere as S

TOL_POS = 1e-12
CAP = 5


def _toast():
    from toasty import toast as T
    from toasty.pyramid import Pos
    return T, Pos


class _Rep(object):
    """Caps the number of reports per obligation."""

    def __init__(self, ctx):
        self.ctx = ctx
        self.n = {}

    def __call__(self, obligation, witness, message):
        k = self.n.get(obligation, 0)
        self.n[obligation] = k + 1
        if k < CAP:
            self.ctx.violation(obligation, witness, message)


def _corner_vecs(corners):
    c = np.asarray(corners, dtype=float).reshape(4, 2)
    return S.ll2v(c[:, 0], c[:, 1])


def _check_tile(rep, coordsys, route, tile, extra=None):
    """Compare one real tile with the documented tile of its own position."""
    n, x, y = int(tile.pos.n), int(tile.pos.x), int(tile.pos.y)
    q, inc = S.tile_quad(coordsys, n, x, y)
    w = {"coordsys": coordsys, "route": route, "n": n, "x": x, "y": y}
    if extra:
        w.update(extra)
    ok = True
    d = S.chord(_corner_vecs(tile.corners), q)
    if not np.all(d <= TOL_POS):
        k = int(np.nanargmax(np.where(np.isnan(d), np.inf, d)))
        ww = dict(w, corner=k, dist=float(d[k]))
        rep("rt/%s/corners" % route, ww, "corner %d of tile (%d,%d,%d) is %.3g (chord) away from the documented "
            "lattice point" % (k, n, x, y, d[k]))
        ok = False
    if bool(tile.increasing) != bool(inc):
        rep("rt/%s/increasing" % route, dict(w, got=bool(tile.increasing), expected=bool(inc)),
            "diagonal orientation of tile (%d,%d,%d) is %r, documented %r" % (n, x, y, bool(tile.increasing), bool(inc)))
        ok = False
    return ok


def _check_tiles_bulk(rep, coordsys, route, tiles, extra=None):
    """_check_tile for many tiles at once (levels <= 10 through the cached global lattice)."""
    good = True
    by_level = {}
    for t in tiles:
        by_level.setdefault(int(t.pos.n), []).append(t)
    for n, ts in sorted(by_level.items()):
        if n > 10 or len(ts) < 8:
            for t in ts:
                good &= _check_tile(rep, coordsys, route, t, extra)
            continue
        L, inc = S.lattice(coordsys, n)
        xs = np.array([t.pos.x for t in ts], dtype=np.int64)
        ys = np.array([t.pos.y for t in ts], dtype=np.int64)
        c = np.array([np.asarray(t.corners, dtype=float).reshape(4, 2) for t in ts])
        v = S.ll2v(c[..., 0], c[..., 1])
        q = np.stack([L[xs, ys], L[xs + 1, ys], L[xs + 1, ys + 1], L[xs, ys + 1]], axis=1)
        d = S.chord(v, q)
        gi = np.array([bool(t.increasing) for t in ts])
        bad = ~np.all(d <= TOL_POS, axis=1) | (gi != inc[xs, ys])
        for i in np.nonzero(bad)[0]:
            good &= _check_tile(rep, coordsys, route, ts[int(i)], extra)   # the scalar path words the report
    return good


# ---------------------------------------------------------------------------------------------
# full enumeration


def _enumerate(ctx, rep, T, coordsys, depth, bottom_only):
    """Run generate_tiles and return per-level arrays {n: (corners[x,y,4,2], inc[x,y], count[x,y])}."""
    cs = T.ToastCoordinateSystem(coordsys)
    levels = [depth] if bottom_only else list(range(1, depth + 1))
    arr = {}
    for n in levels:
        m = 1 << n
        arr[n] = (np.full((m, m, 4, 2), np.nan), np.zeros((m, m), dtype=bool), np.zeros((m, m), dtype=np.int32))
    extra = []
    try:
        for tile in T.generate_tiles(depth, bottom_only=bottom_only, coordsys=cs):
            n, x, y = tile.pos.n, tile.pos.x, tile.pos.y
            a = arr.get(n)
            if a is None or not (0 <= x < (1 << n) and 0 <= y < (1 << n)):
                extra.append([int(n), int(x), int(y)])
                continue
            a[0][x, y] = np.asarray(tile.corners, dtype=float).reshape(4, 2)
            a[1][x, y] = bool(tile.increasing)
            a[2][x, y] += 1
    except Exception as e:  # the property forbids nothing here explicitly, but a raise is a failed route
        rep("rt/generate_tiles/raises", {"coordsys": coordsys, "route": "generate_tiles", "depth": depth,
                                        "bottom_only": bottom_only, "n": depth, "x": 0, "y": 0, "error": repr(e)},
            "generate_tiles(%d, bottom_only=%r) raised %r" % (depth, bottom_only, e))
        return None
    missing, repeated = [], []
    for n in levels:
        cnt = arr[n][2]
        for (x, y) in np.argwhere(cnt == 0)[:5]:
            missing.append([n, int(x), int(y)])
        for (x, y) in np.argwhere(cnt > 1)[:5]:
            repeated.append([n, int(x), int(y)])
    if missing or repeated or extra:
        rep("rt/generate_tiles/positions", {"coordsys": coordsys, "route": "generate_tiles", "depth": depth,
                                           "bottom_only": bottom_only, "missing": missing, "extra": extra[:5],
                                           "repeated": repeated},
            "generate_tiles(%d, bottom_only=%r): missing %s extra %s repeated %s" % (depth, bottom_only, missing, extra[:5], repeated))
    return arr


def _lattice_quads(coordsys, n):
    L, inc = S.lattice(coordsys, n)
    q = np.stack([L[:-1, :-1], L[1:, :-1], L[1:, 1:], L[:-1, 1:]], axis=2)   # [x, y, 4, 3]
    return q, inc


def _compare_level(ctx, rep, coordsys, route, n, corners, incs, count, extra):
    q, inc = _lattice_quads(coordsys, n)
    v = S.ll2v(corners[..., 0], corners[..., 1])
    d = S.chord(v, q)
    present = count > 0
    bad = present[..., None] & ~(d <= TOL_POS)
    for (x, y, k) in np.argwhere(bad)[:CAP]:
        w = dict({"coordsys": coordsys, "route": route, "n": n, "x": int(x), "y": int(y), "corner": int(k),
                  "dist": float(d[x, y, k])}, **extra)
        rep("rt/%s/corners" % route, w, "corner %d of tile (%d,%d,%d) is %.3g (chord) away from the documented lattice "
            "point" % (k, n, x, y, d[x, y, k]))
    badi = present & (incs != inc)
    for (x, y) in np.argwhere(badi)[:CAP]:
        w = dict({"coordsys": coordsys, "route": route, "n": n, "x": int(x), "y": int(y), "got": bool(incs[x, y]),
                  "expected": bool(inc[x, y])}, **extra)
        rep("rt/%s/increasing" % route, w, "diagonal orientation of tile (%d,%d,%d) is %r, documented %r"
            % (n, x, y, bool(incs[x, y]), bool(inc[x, y])))
    return v


_NEIGH = [  # lattice point = corner k of tile (x, y) = corner k2 of tile (x+dx, y+dy)
    (1, 0, 0, 1, 0), (2, 3, 0, 1, 0),    # right neighbour: my ur = its ul ; my lr = its ll
    (3, 0, 0, 0, 1), (2, 1, 0, 0, 1),    # lower neighbour: my ll = its ul ; my lr = its ur
    (2, 0, 0, 1, 1),                     # diagonal neighbour: my lr = its ul
    (3, 1, 0, -1, 1),                    # other diagonal: my ll = ur of (x-1, y+1)
]


def _shared_corners(rep, coordsys, n, v):
    """Direct check on the real tiles of one level: every lattice point is reported identically by
    all tiles touching it (this is 'neighbours share corner points' without using the oracle)."""
    m = v.shape[0]
    for (k, k2, _z, dx, dy) in _NEIGH:
        xs = slice(max(0, -dx), m - max(0, dx))
        ys = slice(0, m - dy)
        xs2 = slice(max(0, -dx) + dx, m - max(0, dx) + dx)
        ys2 = slice(dy, m)
        a = v[xs, ys, k]
        b = v[xs2, ys2, k2]
        d = S.chord(a, b)
        bad = ~(d <= TOL_POS)
        for (i, j) in np.argwhere(bad)[:CAP]:
            x = int(i) + max(0, -dx)
            y = int(j)
            rep("rt/tiles/shared_corners", {"coordsys": coordsys, "route": "generate_tiles", "n": n, "x": x, "y": y,
                                            "corner": k, "other_x": x + dx, "other_y": y + dy, "other_corner": k2,
                                            "dist": float(d[i, j])},
                "tiles (%d,%d,%d) and (%d,%d,%d) disagree on their shared corner by %.3g" % (n, x, y, n, x + dx, y + dy, d[i, j]))


def _nesting(rep, coordsys, n, vp, incp, vc):
    """Direct check parent level n vs child level n+1 (real data only): children keep the parent's
    corners, their new corners are the great-circle midpoints of the parent's edges (on the edge's
    great circle, equidistant from its ends) and the common corner of the four children is the
    midpoint of the parent's diagonal."""
    def child(dx, dy, k):
        return vc[dx::2, dy::2, k]

    def report(mask, what, dist):
        for (x, y) in np.argwhere(mask)[:CAP]:
            rep("rt/tiles/nesting", {"coordsys": coordsys, "route": "generate_tiles", "n": n, "x": int(x), "y": int(y),
                                     "what": what, "dist": float(dist[x, y])},
                "tile (%d,%d,%d) vs its children: %s off by %.3g" % (n, x, y, what, dist[x, y]))

    # kept corners
    for (k, dx, dy) in ((0, 0, 0), (1, 1, 0), (2, 1, 1), (3, 0, 1)):
        d = S.chord(vp[:, :, k], child(dx, dy, k))
        report(~(d <= TOL_POS), "corner %d kept by child (%d,%d)" % (k, dx, dy), d)

    def midpoint_check(a, b, mpt, what):
        nrm = np.cross(a, b)
        ln = np.sqrt((nrm * nrm).sum(axis=-1))
        with np.errstate(invalid="ignore", divide="ignore"):
            off = np.abs((nrm * mpt).sum(axis=-1)) / ln
        d1 = S.chord(mpt, a)
        d2 = S.chord(mpt, b)
        ab = S.chord(a, b)
        dist = np.maximum(off, np.abs(d1 - d2))
        # the midpoint must also lie on the short arc: not farther from either end than the ends are apart
        dist = np.where((d1 <= ab + TOL_POS) & (d2 <= ab + TOL_POS), dist, np.maximum(dist, d1))
        report(~(dist <= TOL_POS), what, dist)

    ul, ur, lr, ll = vp[:, :, 0], vp[:, :, 1], vp[:, :, 2], vp[:, :, 3]
    midpoint_check(ul, ur, child(0, 0, 1), "top-edge midpoint")
    midpoint_check(ur, lr, child(1, 0, 2), "right-edge midpoint")
    midpoint_check(lr, ll, child(1, 1, 3), "bottom-edge midpoint")
    midpoint_check(ll, ul, child(0, 1, 0), "left-edge midpoint")
    # the same edge midpoints as seen by the sibling
    for (a_dx, a_dy, a_k, b_dx, b_dy, b_k, what) in (
            (0, 0, 1, 1, 0, 0, "top midpoint shared by children (0,0),(1,0)"),
            (1, 0, 2, 1, 1, 1, "right midpoint shared by children (1,0),(1,1)"),
            (1, 1, 3, 0, 1, 2, "bottom midpoint shared by children (1,1),(0,1)"),
            (0, 1, 0, 0, 0, 3, "left midpoint shared by children (0,1),(0,0)")):
        d = S.chord(child(a_dx, a_dy, a_k), child(b_dx, b_dy, b_k))
        report(~(d <= TOL_POS), what, d)
    # centre: common corner of the four children = midpoint of the parent's diagonal
    ce = child(0, 0, 2)
    for (dx, dy, k) in ((1, 0, 3), (1, 1, 0), (0, 1, 1)):
        d = S.chord(ce, child(dx, dy, k))
        report(~(d <= TOL_POS), "centre shared by children (0,0),(%d,%d)" % (dx, dy), d)
    a = np.where(incp[..., None], ll, ul)
    b = np.where(incp[..., None], ur, lr)
    midpoint_check(a, b, ce, "diagonal midpoint")


def _areas_exhaustive(ctx, rep, T, Pos, coordsys, depth):
    """toast_tile_area on every tile to ``depth``: total per level, parent = sum of children,
    value = independent spherical area."""
    cs = T.ToastCoordinateSystem(coordsys)
    areas = {n: np.full((1 << n, 1 << n), np.nan) for n in range(1, depth + 1)}
    for tile in T.generate_tiles(depth, bottom_only=False, coordsys=cs):
        try:
            a = float(T.toast_tile_area(tile))
        except Exception as e:
            rep("rt/toast_tile_area/value", {"coordsys": coordsys, "route": "generate_tiles", "n": tile.pos.n,
                                            "x": tile.pos.x, "y": tile.pos.y, "area": None, "expected": None, "error": repr(e)},
                "toast_tile_area raised %r" % (e,))
            continue
        areas[tile.pos.n][tile.pos.x, tile.pos.y] = a
        ctx.case((coordsys, "area", tile.pos.n, tile.pos.x, tile.pos.y))
    for n in range(1, depth + 1):
        A = areas[n]
        tot = float(np.sum(A))
        if not abs(tot - 4 * math.pi) <= 1e-9 * 4 * math.pi:
            rep("rt/toast_tile_area/total", {"coordsys": coordsys, "route": "generate_tiles", "n": n, "x": 0, "y": 0, "total": tot},
                "areas of the %d tiles of level %d sum to %.15g, not 4 pi" % (A.size, n, tot))
        q, _inc = _lattice_quads(coordsys, n)
        ref = S.quad_area(q, _inc)
        bad = ~(np.abs(A - ref) <= 1e-9 * ref + 1e-13)
        for (x, y) in np.argwhere(bad)[:CAP]:
            rep("rt/toast_tile_area/value", {"coordsys": coordsys, "route": "generate_tiles", "n": n, "x": int(x), "y": int(y),
                                            "area": float(A[x, y]), "expected": float(ref[x, y])},
                "toast_tile_area of (%d,%d,%d) = %.15g, independent spherical area %.15g" % (n, x, y, A[x, y], ref[x, y]))
        if n < depth:
            C = areas[n + 1]
            ch = C[0::2, 0::2] + C[1::2, 0::2] + C[0::2, 1::2] + C[1::2, 1::2]
            bad = ~(np.abs(A - ch) <= 1e-9 * ref + 1e-13)
            for (x, y) in np.argwhere(bad)[:CAP]:
                rep("rt/toast_tile_area/children", {"coordsys": coordsys, "route": "generate_tiles", "n": n, "x": int(x), "y": int(y),
                                                   "area": float(A[x, y]), "children": float(ch[x, y])},
                    "area of (%d,%d,%d) = %.15g but its four children sum to %.15g" % (n, x, y, A[x, y], ch[x, y]))


# ---------------------------------------------------------------------------------------------
# other routes


def _single(ctx, rep, T, Pos, coordsys, n, x, y, store=None):
    cs = T.ToastCoordinateSystem(coordsys)
    try:
        t = T.create_single_tile(Pos(n=n, x=x, y=y), coordsys=cs)
    except Exception as e:
        rep("rt/create_single_tile/raises", {"coordsys": coordsys, "route": "create_single_tile", "n": n, "x": x, "y": y,
                                            "error": repr(e)}, "create_single_tile(%d,%d,%d) raised %r" % (n, x, y, e))
        return None
    ctx.case((coordsys, "create_single_tile", n, x, y))
    if (int(t.pos.n), int(t.pos.x), int(t.pos.y)) != (n, x, y):
        rep("rt/create_single_tile/positions", {"coordsys": coordsys, "route": "create_single_tile", "n": n, "x": x, "y": y,
                                               "depth": n, "bottom_only": True, "missing": [[n, x, y]],
                                               "extra": [[int(t.pos.n), int(t.pos.x), int(t.pos.y)]], "repeated": []},
            "create_single_tile(%d,%d,%d) returned a tile labelled %r" % (n, x, y, tuple(t.pos)))
        return None
    _check_tile(rep, coordsys, "create_single_tile", t)
    return t


def _agree(rep, coordsys, route, t, other_route, corners2, inc2):
    """Direct comparison of two real routes for one position."""
    n, x, y = int(t.pos.n), int(t.pos.x), int(t.pos.y)
    d = S.chord(_corner_vecs(t.corners), _corner_vecs(corners2))
    dm = float(np.max(np.where(np.isnan(d), np.inf, d)))
    if not dm <= TOL_POS or bool(t.increasing) != bool(inc2):
        rep("rt/routes/agree", {"coordsys": coordsys, "n": n, "x": x, "y": y, "route": route, "other_route": other_route,
                                "dist": dm, "increasing": bool(t.increasing), "other_increasing": bool(inc2)},
            "tile (%d,%d,%d): %s and %s differ (corner distance %.3g, increasing %r vs %r)"
            % (n, x, y, route, other_route, dm, bool(t.increasing), bool(inc2)))
        return False
    return True


_FILTER_KINDS = ("paths", "random", "cap")


def _make_filter(kind, params, depth):
    """A deterministic tile filter and the set of positions it must let through, defined on
    positions only (so that the expectation needs no geometry)."""
    if kind == "paths":
        targets = [tuple(t) for t in params["targets"]]
        allowed = set()
        for (x, y) in targets:
            for n in range(1, depth + 1):
                allowed.add((n, x >> (depth - n), y >> (depth - n)))

        def ok(n, x, y):
            return (n, x, y) in allowed
    elif kind == "random":
        salt = int(params["salt"])
        pct = int(params["pct"])

        def ok(n, x, y):
            h = (n * 1000003 + x * 7919 + y * 104729 + salt * 31337) * 2654435761 % 4294967296
            return (h >> 7) % 100 < pct
    else:  # "cap": everything except one level-1 quadrant and one level-2 subtree
        q1 = tuple(params["drop1"])
        q2 = tuple(params["drop2"])

        def ok(n, x, y):
            if n >= 1 and (x >> (n - 1), y >> (n - 1)) == q1:
                return False
            if n >= 2 and (x >> (n - 2), y >> (n - 2)) == q2:
                return False
            return True
    return ok


def _expected_filtered(ok, depth, bottom_only):
    """'only tiles for which the function returns True will be investigated': a tile is yielded iff
    it and all its ancestors (levels >= 1) pass."""
    out = set()
    frontier = [(1, x, y) for y in (0, 1) for x in (0, 1)]
    while frontier:
        n, x, y = frontier.pop()
        if not ok(n, x, y):
            continue
        if n == depth or not bottom_only:
            out.add((n, x, y))
        if n < depth:
            for dy in (0, 1):
                for dx in (0, 1):
                    frontier.append((n + 1, 2 * x + dx, 2 * y + dy))
    return out


def _filtered_case(ctx, rep, T, Pos, coordsys, depth, bottom_only, kind, params, check_single=3):
    cs = T.ToastCoordinateSystem(coordsys)
    ok = _make_filter(kind, params, depth)
    fdesc = {"kind": kind, "params": params}
    seen = {}
    repeated = []
    try:
        for t in T.generate_tiles_filtered(depth, lambda tile: ok(tile.pos.n, tile.pos.x, tile.pos.y),
                                           bottom_only=bottom_only, coordsys=cs):
            key = (int(t.pos.n), int(t.pos.x), int(t.pos.y))
            if key in seen:
                repeated.append(list(key))
            seen[key] = t
    except Exception as e:
        rep("rt/generate_tiles_filtered/raises", {"coordsys": coordsys, "route": "generate_tiles_filtered", "depth": depth,
                                                 "bottom_only": bottom_only, "filter": fdesc, "n": depth, "x": 0, "y": 0,
                                                 "error": repr(e)}, "generate_tiles_filtered raised %r" % (e,))
        return True
    ctx.case((coordsys, "generate_tiles_filtered", depth, bottom_only, kind, repr(sorted(params.items()))),
             nontrivial=len(seen) > 0)
    exp = _expected_filtered(ok, depth, bottom_only)
    good = True
    if set(seen) != exp or repeated:
        missing = sorted(exp - set(seen))[:5]
        extra = sorted(set(seen) - exp)[:5]
        rep("rt/generate_tiles_filtered/positions", {"coordsys": coordsys, "route": "generate_tiles_filtered", "depth": depth,
                                                    "bottom_only": bottom_only, "filter": fdesc,
                                                    "missing": [list(m) for m in missing], "extra": [list(m) for m in extra],
                                                    "repeated": repeated[:5]},
            "filtered enumeration yields a wrong set: missing %s extra %s repeated %s" % (missing, extra, repeated[:5]))
        good = False
    extra_w = {"depth": depth, "bottom_only": bottom_only, "filter": fdesc}
    good &= _check_tiles_bulk(rep, coordsys, "generate_tiles_filtered", [seen[key] for key in sorted(seen)], extra_w)
    # route agreement on a few of them (direct, no oracle)
    keys = sorted(seen)
    step = max(1, len(keys) // max(1, check_single))
    for key in keys[::step][:check_single]:
        try:
            t2 = T.create_single_tile(Pos(n=key[0], x=key[1], y=key[2]), coordsys=cs)
        except Exception:
            continue   # reported by the create_single_tile obligations
        good &= _agree(rep, coordsys, "generate_tiles_filtered", seen[key], "create_single_tile", t2.corners, t2.increasing)
    return good


def _in_subpyramid(key, apex):
    """key lies in the sub-pyramid below (and including) apex."""
    n, x, y = key
    an, ax, ay = apex
    return n >= an and (x >> (n - an), y >> (n - an)) == (ax, ay)


def _pyramid_case(ctx, rep, T, Pos, coordsys, depth, kind, params, apex, ref_of=None):
    """The tiles that the Pyramid visitors hand to their callbacks are one more way of obtaining 'the tile of a position'
    (full enumeration / filtered enumeration behind ``Pyramid.new_toast`` / ``new_toast_filtered`` / ``subpyramid``):
    every (pos, tile) delivered by ``visit_leaves`` must carry the documented corners / orientation of ``pos`` in the
    pyramid's coordinate system, the same as the other routes report, and the leaves delivered are exactly the leaves that
    pass the filter and lie below the apex.  kind: None (unfiltered) or one of _FILTER_KINDS; apex: None or [n, x, y].
    Serial visit (parallel=1: no worker processes; which worker delivers a tile is property C03)."""
    import contextlib
    import io
    from toasty.pyramid import Pyramid
    cs = T.ToastCoordinateSystem(coordsys)
    route = "Pyramid.visit_leaves"
    how = ("new_toast" if kind is None else "new_toast_filtered") + (".subpyramid" if apex is not None else "")
    fdesc = None if kind is None else {"kind": kind, "params": params}
    w0 = {"coordsys": coordsys, "route": route, "pyramid": how, "depth": depth, "filter": fdesc, "apex": None if apex is None else list(apex)}
    ok = (lambda n, x, y: True) if kind is None else _make_filter(kind, params, depth)
    got = []
    try:
        if kind is None:
            pyr = Pyramid.new_toast(depth, coordsys=cs)
        else:
            pyr = Pyramid.new_toast_filtered(depth, lambda tile: ok(tile.pos.n, tile.pos.x, tile.pos.y), coordsys=cs)
        if apex is not None:
            pyr = pyr.subpyramid(Pos(n=apex[0], x=apex[1], y=apex[2]))
        with contextlib.redirect_stdout(io.StringIO()):
            pyr.visit_leaves(lambda pos, tile: got.append((pos, tile)), parallel=1)
    except Exception as e:
        rep("rt/%s/raises" % route, dict(w0, n=depth, x=0, y=0, error=repr(e)), "Pyramid.%s(...).visit_leaves raised %r" % (how, e))
        return False
    exp = _expected_filtered(ok, depth, True)
    if apex is not None:
        exp = set(k for k in exp if _in_subpyramid(k, apex))
    ctx.case((coordsys, route, how, depth, kind, repr(sorted((params or {}).items())), None if apex is None else tuple(apex)),
             nontrivial=len(exp) > 0)
    good = True
    seen = {}
    repeated, mislabelled = [], []
    for pos, tile in got:
        key = (int(pos.n), int(pos.x), int(pos.y))
        if key in seen:
            repeated.append(list(key))
        if tile is None or (int(tile.pos.n), int(tile.pos.x), int(tile.pos.y)) != key:
            mislabelled.append(list(key))
            continue
        seen[key] = tile
    if set(seen) != exp or repeated or mislabelled:
        missing = sorted(exp - set(seen))[:5]
        extra = sorted(set(seen) - exp)[:5]
        rep("rt/%s/positions" % route, dict(w0, bottom_only=True, missing=[list(m) for m in missing], extra=[list(m) for m in extra],
                                            repeated=repeated[:5], mislabelled=mislabelled[:5]),
            "Pyramid.%s(...).visit_leaves delivers a wrong set of leaves: missing %s extra %s repeated %s, delivered without / with "
            "another position's tile %s" % (how, missing, extra, repeated[:5], mislabelled[:5]))
        good = False
    keys = sorted(seen)
    extra_w = {k: w0[k] for k in ("pyramid", "depth", "filter", "apex")}
    good &= _check_tiles_bulk(rep, coordsys, route, [seen[k] for k in keys], extra_w)
    # direct agreement with the other routes (no oracle): the enumerated tile when available, create_single_tile otherwise
    for key in keys:
        t = seen[key]
        ref = ref_of(*key) if ref_of is not None else None
        other = "generate_tiles"
        if ref is None:
            other = "create_single_tile"
            try:
                t2 = T.create_single_tile(Pos(n=key[0], x=key[1], y=key[2]), coordsys=cs)
                ref = (t2.corners, t2.increasing)
            except Exception:
                continue   # reported by the create_single_tile obligations
        d = S.chord(_corner_vecs(t.corners), _corner_vecs(ref[0]))
        dm = float(np.max(np.where(np.isnan(d), np.inf, d)))
        if not dm <= TOL_POS or bool(t.increasing) != bool(ref[1]):
            rep("rt/routes/agree", dict(w0, n=key[0], x=key[1], y=key[2], other_route=other, dist=dm, increasing=bool(t.increasing),
                                        other_increasing=bool(ref[1])),
                "tile (%d,%d,%d) of the %s system: the tile handed to the visit_leaves callback of Pyramid.%s differs from the one "
                "reported by %s (corner distance %.3g, increasing %r vs %r)"
                % (key[0], key[1], key[2], coordsys, how, other, dm, bool(t.increasing), bool(ref[1])))
            good = False
    return good


def _lookup_case(ctx, rep, T, Pos, coordsys, depth, lat, lon):
    """The tile handed back by point look-up is the documented tile of the position it claims
    (whether that position contains the point is property C12)."""
    cs = T.ToastCoordinateSystem(coordsys)
    try:
        t = T.toast_tile_for_point(depth, lat, lon, coordsys=cs)
    except Exception as e:
        rep("rt/toast_tile_for_point/raises", {"coordsys": coordsys, "route": "toast_tile_for_point", "n": depth, "x": 0, "y": 0,
                                              "depth": depth, "lat": lat, "lon": lon, "error": repr(e)},
            "toast_tile_for_point(%d, %r, %r) raised %r" % (depth, lat, lon, e))
        return True
    n, x, y = int(t.pos.n), int(t.pos.x), int(t.pos.y)
    ctx.case((coordsys, "toast_tile_for_point", depth, lat, lon))
    w = {"depth": depth, "lat": lat, "lon": lon}
    if n != depth or not (0 <= x < (1 << n) and 0 <= y < (1 << n)):
        rep("rt/toast_tile_for_point/positions", dict({"coordsys": coordsys, "route": "toast_tile_for_point", "n": n, "x": x, "y": y,
                                                       "bottom_only": True, "missing": [], "extra": [[n, x, y]], "repeated": []}, **w),
            "look-up at depth %d returned position (%d,%d,%d)" % (depth, n, x, y))
        return False
    good = _check_tile(rep, coordsys, "toast_tile_for_point", t, w)
    try:
        t2 = T.create_single_tile(Pos(n=n, x=x, y=y), coordsys=cs)
        good &= _agree(rep, coordsys, "toast_tile_for_point", t, "create_single_tile", t2.corners, t2.increasing)
    except Exception:
        pass
    return good


def _interior_point(coordsys, n, x, y, weights):
    """A point strictly inside the documented tile (n, x, y): its centre (``weights`` None) or the
    normalised positive combination of its four corners (the tile is the intersection of a convex
    cone with the sphere, so every positive combination of the corners lies inside it).
    Returns (lat, lon, margin / shortest-edge)."""
    q, inc = S.tile_quad(coordsys, n, x, y)
    if weights is None:
        p = S.quad_centre(q, inc)
    else:
        p = (np.asarray(weights, dtype=float)[:, None] * q).sum(axis=0)
        p = p / math.sqrt(float((p * p).sum()))
    lon, lat = S.v2ll(p)
    rel = float(S.quad_inside_margin(q, p)) / S.quad_min_edge(q)
    return float(lat), float(lon), rel


def _lookup_position_case(ctx, rep, T, Pos, coordsys, n, x, y, weights, ref=None):
    """'Obtain tile (n, x, y) by point look-up': look up a point strictly inside the documented
    tile at depth n.  The tile handed back must be the tile of that position, with the same
    corners and orientation as the other routes report for it (``ref`` = (corners, increasing)
    from the enumeration when available, create_single_tile otherwise)."""
    cs = T.ToastCoordinateSystem(coordsys)
    lat, lon, rel = _interior_point(coordsys, n, x, y, weights)
    w = {"coordsys": coordsys, "route": "toast_tile_for_point", "n": n, "x": x, "y": y, "depth": n, "lat": lat, "lon": lon,
         "weights": None if weights is None else [float(v) for v in weights]}
    try:
        t = T.toast_tile_for_point(n, lat, lon, coordsys=cs)
    except Exception as e:
        rep("rt/toast_tile_for_point/raises", dict(w, error=repr(e)), "toast_tile_for_point(%d, %r, %r) raised %r" % (n, lat, lon, e))
        return False
    ctx.case((coordsys, "toast_tile_for_point@tile", n, x, y, None if weights is None else tuple(w["weights"])))
    other = "generate_tiles"
    if ref is None:
        other = "create_single_tile"
        try:
            t2 = T.create_single_tile(Pos(n=n, x=x, y=y), coordsys=cs)
            ref = (t2.corners, t2.increasing)
        except Exception:
            ref = None   # reported by the create_single_tile obligations
    got = (int(t.pos.n), int(t.pos.x), int(t.pos.y))
    good = True
    if got != (n, x, y):
        rep("rt/toast_tile_for_point/positions", dict(w, bottom_only=True, missing=[[n, x, y]], extra=[list(got)], repeated=[]),
            "look-up of a point inside tile (%d,%d,%d) of the %s system (lat %.6f lon %.6f rad, %.2g of an edge away from the "
            "border) returned tile %r" % (n, x, y, coordsys, lat, lon, rel, got))
        good = False
    else:
        good &= _check_tile(rep, coordsys, "toast_tile_for_point", t, {"depth": n, "lat": lat, "lon": lon})
    if ref is not None and t.corners is not None:
        d = S.chord(_corner_vecs(t.corners), _corner_vecs(ref[0]))
        dm = float(np.max(np.where(np.isnan(d), np.inf, d)))
        if not dm <= TOL_POS or bool(t.increasing) != bool(ref[1]):
            rep("rt/routes/agree", dict(w, other_route=other, dist=dm, increasing=bool(t.increasing), other_increasing=bool(ref[1]),
                                        got=list(got)),
                "tile (%d,%d,%d) of the %s system: point look-up inside it delivers tile %r whose corners are %.3g away from "
                "those reported by %s (increasing %r vs %r)" % (n, x, y, coordsys, got, dm, other, bool(t.increasing), bool(ref[1])))
            good = False
    return good


def _deep_single_case(ctx, rep, T, Pos, coordsys, n, x, y):
    t = _single(ctx, rep, T, Pos, coordsys, n, x, y)
    if t is None:
        return False
    q, _inc = S.tile_quad(coordsys, n, x, y)
    ref = float(S.quad_area(q, _inc))
    good = True
    try:
        a = float(T.toast_tile_area(t))
        if not abs(a - ref) <= 1e-9 * ref + 1e-13:
            rep("rt/toast_tile_area/value", {"coordsys": coordsys, "route": "create_single_tile", "n": n, "x": x, "y": y,
                                            "area": a, "expected": ref},
                "toast_tile_area of (%d,%d,%d) = %.15g, independent spherical area %.15g" % (n, x, y, a, ref))
            good = False
        cs = T.ToastCoordinateSystem(coordsys)
        ch = 0.0
        for dy in (0, 1):
            for dx in (0, 1):
                ch += float(T.toast_tile_area(T.create_single_tile(Pos(n=n + 1, x=2 * x + dx, y=2 * y + dy), coordsys=cs)))
        if not abs(a - ch) <= 1e-9 * ref + 1e-13:
            rep("rt/toast_tile_area/children", {"coordsys": coordsys, "route": "create_single_tile", "n": n, "x": x, "y": y,
                                               "area": a, "children": ch},
                "area of (%d,%d,%d) = %.15g but its four children sum to %.15g" % (n, x, y, a, ch))
            good = False
    except Exception as e:
        rep("rt/toast_tile_area/value", {"coordsys": coordsys, "route": "create_single_tile", "n": n, "x": x, "y": y,
                                        "area": None, "expected": ref, "error": repr(e)}, "toast_tile_area raised %r" % (e,))
        good = False
    return good


# ---------------------------------------------------------------------------------------------


def run(ctx):
    T, Pos = _toast()
    rep = _Rep(ctx)
    rng = ctx.rng
    thorough = ctx.thorough
    d_enum = 9 if thorough else 8
    d_area = 8 if thorough else 7
    d_single = 6 if thorough else 5
    n_deep = 6000 if thorough else 800
    max_deep = 24
    n_filt = 300 if thorough else 60
    d_filt = 8 if thorough else 6
    n_look = 3000 if thorough else 500
    d_look = 14
    d_lookpos = 6 if thorough else 5
    n_lookpos = 4000 if thorough else 600
    d_pyr = 6 if thorough else 4
    n_pyr = 120 if thorough else 24

    ctx.bound("both coordinate systems; generate_tiles(depth, bottom_only=False) for depth = %d and bottom_only=True for "
              "depth <= %d: every yielded tile compared with the documented lattice (chord <= %g)" % (d_enum, min(d_enum, 6), TOL_POS))
    ctx.bound("shared corners between all neighbours of one level and parent/child nesting (kept corners, edge and diagonal "
              "midpoints on the parent's great circles) on all levels <= %d, computed on the real tiles only" % d_enum)
    ctx.bound("toast_tile_area: all tiles of levels <= %d (total = 4 pi rel 1e-9; parent = sum of children and value = "
              "independent area within 1e-9 rel + 1e-13 abs); %d random tiles of depth <= %d" % (d_area, n_deep, max_deep))
    ctx.bound("create_single_tile: all positions of levels 1..%d and %d random positions of depth %d..%d" % (d_single, n_deep, d_single + 1, max_deep))
    ctx.bound("generate_tiles_filtered: %d position-defined filters (ancestor paths / pseudo-random / dropped quadrants), "
              "depth <= %d, bottom_only both ways" % (n_filt, d_filt))
    ctx.bound("toast_tile_for_point: %d random points (plus poles, equator, seam), depth <= %d: returned tile is the documented "
              "tile of the position it names and equals create_single_tile of that position" % (n_look, d_look))
    ctx.bound("toast_tile_for_point as a construction route: every position of levels 1..%d looked up at the documented tile centre "
              "and at one random strictly interior point (positive combination of the corners, weights in [0.15, 1]), plus %d "
              "random positions of depth %d..%d spread evenly over the four level-1 quadrants: the look-up must hand back "
              "that position with the corners / orientation the enumeration (create_single_tile beyond level %d) reports"
              % (d_lookpos, n_lookpos, d_lookpos + 1, d_look, d_enum))
    ctx.bound("Pyramid visitors as construction routes (serial visit_leaves; the tile handed to the callback vs the documented lattice, "
              "vs generate_tiles and the expected leaf set): Pyramid.new_toast(depth) for depth 1..%d; %d seeded cases of "
              "new_toast_filtered (position-defined filters), new_toast(...).subpyramid(apex) for random apexes of every level <= depth "
              "and new_toast_filtered(...).subpyramid(apex), depth <= %d [per coordinate system]" % (d_pyr, n_pyr, d_pyr))
    ctx.assume("rt/c04_sphere.py is a faithful model of the documented TOAST layout (octahedron, midpoint subdivision)")
    ctx.assume("numpy float64 arithmetic; positions compared as unit vectors with chord tolerance 1e-12")

    for coordsys in S.COORDSYS:
        # ---- full enumeration, every level
        arr = _enumerate(ctx, rep, T, coordsys, d_enum, False)
        vecs = {}
        if arr is not None:
            for n in sorted(arr):
                corners, incs, count = arr[n]
                vecs[n] = _compare_level(ctx, rep, coordsys, "generate_tiles", n, corners, incs, count,
                                         {"depth": d_enum, "bottom_only": False})
                m = 1 << n
                for x in range(m):
                    for y in range(m):
                        ctx.case((coordsys, "g", n, x, y))
                _shared_corners(rep, coordsys, n, vecs[n])
                if n - 1 in vecs:
                    _nesting(rep, coordsys, n - 1, vecs[n - 1], arr[n - 1][1], vecs[n])
            ctx.sample({"coordsys": coordsys, "route": "generate_tiles", "depth": d_enum,
                        "tile_1_0_0_corners_deg": np.degrees(arr[1][0][0, 0]).round(6).tolist(),
                        "increasing": bool(arr[1][1][0, 0])})
        # ---- bottom-only enumeration at a few depths agrees with the all-level one
        for depth in range(1, min(d_enum, 6) + 1):
            arr_b = _enumerate(ctx, rep, T, coordsys, depth, True)
            if arr_b is None:
                continue
            corners, incs, count = arr_b[depth]
            _compare_level(ctx, rep, coordsys, "generate_tiles", depth, corners, incs, count,
                           {"depth": depth, "bottom_only": True})
            ctx.case((coordsys, "generate_tiles-bottom", depth))
            if arr is not None:
                same = np.array_equal(corners, arr[depth][0]) and np.array_equal(incs, arr[depth][1])
                if not same:
                    d = S.chord(S.ll2v(corners[..., 0], corners[..., 1]), vecs[depth])
                    x, y, k = np.unravel_index(int(np.nanargmax(d)), d.shape)
                    if not (np.nanmax(d) <= TOL_POS) or not np.array_equal(incs, arr[depth][1]):
                        rep("rt/routes/agree", {"coordsys": coordsys, "n": depth, "x": int(x), "y": int(y),
                                                "route": "generate_tiles(bottom_only=True)", "other_route": "generate_tiles(bottom_only=False)",
                                                "dist": float(np.nanmax(d)), "increasing": bool(incs[x, y]),
                                                "other_increasing": bool(arr[depth][1][x, y])},
                            "bottom-only and all-level enumerations differ at level %d" % depth)
                    else:
                        ctx.note("bottom-only and all-level enumerations agree only to rounding at level %d (%s)" % (depth, coordsys))
        # ---- areas
        _areas_exhaustive(ctx, rep, T, Pos, coordsys, d_area)
        # ---- single tiles, exhaustive part; direct agreement with the enumeration
        nonbit = 0
        for n in range(1, d_single + 1):
            for x in range(1 << n):
                for y in range(1 << n):
                    t = _single(ctx, rep, T, Pos, coordsys, n, x, y)
                    if t is not None and arr is not None and arr[n][2][x, y] > 0:
                        if _agree(rep, coordsys, "create_single_tile", t, "generate_tiles", arr[n][0][x, y], arr[n][1][x, y]):
                            if not np.array_equal(np.asarray(t.corners, dtype=float).reshape(4, 2), arr[n][0][x, y]):
                                nonbit += 1
        if nonbit:
            ctx.note("%s: %d single tiles equal the enumerated ones only up to rounding (not bit-for-bit)" % (coordsys, nonbit))
        # ---- single tiles, deep random part (+ areas there)
        for i in range(n_deep):
            n = rng.randint(d_single + 1, max_deep)
            m = 1 << n
            mode = i % 4
            if mode == 0:       # uniformly random
                x, y = rng.randrange(m), rng.randrange(m)
            elif mode == 1:     # hugging the pole / the centre cross
                x = m // 2 - rng.randint(0, 1) if rng.random() < 0.5 else rng.randrange(m)
                y = m // 2 - rng.randint(0, 1) if rng.random() < 0.7 else rng.randrange(m)
            elif mode == 2:     # the border of the square (south pole, seam) and the equator diamond
                x = rng.choice([0, m - 1, rng.randrange(m)])
                y = rng.choice([0, m - 1, (m // 2 - 1 - x) % m, (x - m // 2) % m])
            else:               # the two diagonals
                x = rng.randrange(m)
                y = x if rng.random() < 0.5 else m - 1 - x
            _deep_single_case(ctx, rep, T, Pos, coordsys, n, x, y)
            if i == 0:
                ctx.sample({"coordsys": coordsys, "route": "create_single_tile", "n": n, "x": x, "y": y})
        # ---- filtered enumerations
        for i in range(n_filt):
            depth = rng.randint(1, d_filt)
            bottom_only = bool(rng.getrandbits(1))
            kind = _FILTER_KINDS[i % 3]
            if kind == "paths":
                params = {"targets": [[rng.randrange(1 << depth), rng.randrange(1 << depth)] for _ in range(rng.randint(1, 6))]}
            elif kind == "random":
                params = {"salt": rng.randrange(10 ** 6), "pct": rng.choice([35, 60, 85, 100])}
            else:
                q1 = [rng.randint(0, 1), rng.randint(0, 1)]
                params = {"drop1": q1, "drop2": [rng.randint(0, 3), rng.randint(0, 3)]}
            _filtered_case(ctx, rep, T, Pos, coordsys, depth, bottom_only, kind, params)
        # ---- the Pyramid visitors (full / filtered enumeration behind Pyramid.new_toast / new_toast_filtered / subpyramid)
        def ref_enum(n, x, y):
            if arr is not None and n in arr and arr[n][2][x, y] > 0:
                return (arr[n][0][x, y], arr[n][1][x, y])
            return None

        for depth in range(1, d_pyr + 1):
            _pyramid_case(ctx, rep, T, Pos, coordsys, depth, None, None, None, ref_enum)
        for i in range(n_pyr):
            depth = rng.randint(1, d_pyr)
            form = i % 3                      # 0: filtered, 1: sub-pyramid of an unfiltered pyramid, 2: both
            kind, params, apex = None, None, None
            if form != 1:
                kind = _FILTER_KINDS[(i // 3) % 3]
                if kind == "paths":
                    params = {"targets": [[rng.randrange(1 << depth), rng.randrange(1 << depth)] for _ in range(rng.randint(1, 6))]}
                elif kind == "random":
                    params = {"salt": rng.randrange(10 ** 6), "pct": rng.choice([60, 85, 100])}
                else:
                    params = {"drop1": [rng.randint(0, 1), rng.randint(0, 1)], "drop2": [rng.randint(0, 3), rng.randint(0, 3)]}
            if form != 0:
                an = rng.randint(0, depth) if i % 2 else rng.randint(1, min(2, depth))
                apex = [an, rng.randrange(1 << an), rng.randrange(1 << an)]
                if kind == "paths":          # an apex on one of the accepted paths, so that the sub-pyramid is not empty
                    tx, ty = params["targets"][0]
                    apex = [an, tx >> (depth - an), ty >> (depth - an)]
            _pyramid_case(ctx, rep, T, Pos, coordsys, depth, kind, params, apex, ref_enum)
            if i == 0:
                ctx.sample({"coordsys": coordsys, "route": "Pyramid.visit_leaves", "pyramid": "new_toast_filtered", "depth": depth,
                            "filter": {"kind": kind, "params": params}})
        # ---- point look-up route
        specials = [(math.pi / 2, 0.3), (-math.pi / 2, 4.0), (0.0, 0.0), (0.0, math.pi / 2), (0.0, math.pi), (0.0, 1.5 * math.pi),
                    (0.4, 0.0), (-0.4, 2 * math.pi), (0.7, math.pi), (math.pi / 4, math.pi / 4)]
        for i in range(n_look):
            depth = rng.randint(1, d_look)
            if i < len(specials):
                lat, lon = specials[i]
            else:
                lat = math.asin(rng.uniform(-1, 1))
                lon = rng.uniform(0, S.TWOPI)
            _lookup_case(ctx, rep, T, Pos, coordsys, depth, lat, lon)
        # ---- point look-up as the fourth way of obtaining the tile of a given position
        def ref_of(n, x, y):
            if arr is not None and n in arr and arr[n][2][x, y] > 0:
                return (arr[n][0][x, y], arr[n][1][x, y])
            return None

        def rand_w():
            return [rng.uniform(0.15, 1.0) for _ in range(4)]

        for n in range(1, d_lookpos + 1):
            for x in range(1 << n):
                for y in range(1 << n):
                    _lookup_position_case(ctx, rep, T, Pos, coordsys, n, x, y, None, ref_of(n, x, y))
                    _lookup_position_case(ctx, rep, T, Pos, coordsys, n, x, y, rand_w(), ref_of(n, x, y))
        for i in range(n_lookpos):
            n = rng.randint(d_lookpos + 1, d_look)
            h = 1 << (n - 1)
            x = (i % 2) * h + rng.randrange(h)          # level-1 quadrant i % 4
            y = ((i // 2) % 2) * h + rng.randrange(h)
            _lookup_position_case(ctx, rep, T, Pos, coordsys, n, x, y, None if i % 3 == 0 else rand_w(), ref_of(n, x, y))
            if i == 0:
                ctx.sample({"coordsys": coordsys, "route": "toast_tile_for_point", "n": n, "x": x, "y": y, "at": "tile centre"})
    for obligation, k in sorted(rep.n.items()):
        if k > CAP:
            ctx.note("%s: %d failing cases met, first %d reported" % (obligation, k, CAP))


def replay(obligation, witness):
    """Re-run the recorded case on the current tree."""
    T, Pos = _toast()

    class _Ctx(object):
        def __init__(self):
            self.violations = []

        def case(self, *a, **k):
            pass

        def violation(self, obligation, witness, message):
            self.violations.append((obligation, message))

        def note(self, *a):
            pass

        def sample(self, *a, **k):
            pass

    c = _Ctx()
    rep = _Rep(c)
    w = witness
    coordsys = w.get("coordsys", "astronomical")
    route = w.get("route", "")
    parts = obligation.split("/")
    if obligation.startswith("rt/toast_tile_area/") or obligation.startswith("rt/tiles/") or \
            (len(parts) == 3 and parts[1] == "generate_tiles"):
        n = int(w.get("n", 1))
        depth = int(w.get("depth", n))
        if obligation == "rt/toast_tile_area/total" or obligation.startswith("rt/toast_tile_area/") and route == "generate_tiles":
            _areas_exhaustive(c, rep, T, Pos, coordsys, min(max(n + 1, 1), 9))
        elif obligation.startswith("rt/toast_tile_area/"):
            _deep_single_case(c, rep, T, Pos, coordsys, n, int(w["x"]), int(w["y"]))
        else:
            depth = min(max(depth, n + 1 if obligation == "rt/tiles/nesting" else n), 10)
            bottom_only = bool(w.get("bottom_only", False)) and not obligation.startswith("rt/tiles/")
            arr = _enumerate(c, rep, T, coordsys, depth, bottom_only)
            if arr is not None:
                vecs = {}
                for lev in sorted(arr):
                    vecs[lev] = _compare_level(c, rep, coordsys, "generate_tiles", lev, arr[lev][0], arr[lev][1], arr[lev][2],
                                               {"depth": depth, "bottom_only": bottom_only})
                    _shared_corners(rep, coordsys, lev, vecs[lev])
                    if lev - 1 in vecs:
                        _nesting(rep, coordsys, lev - 1, vecs[lev - 1], arr[lev - 1][1], vecs[lev])
    elif route == "Pyramid.visit_leaves":
        f = w.get("filter")
        _pyramid_case(c, rep, T, Pos, coordsys, int(w["depth"]), f["kind"] if f else None, f["params"] if f else None, w.get("apex"))
    elif len(parts) == 3 and parts[1] == "generate_tiles_filtered":
        f = w["filter"]
        _filtered_case(c, rep, T, Pos, coordsys, int(w["depth"]), bool(w["bottom_only"]), f["kind"], f["params"], check_single=10 ** 6)
    elif len(parts) == 3 and parts[1] == "create_single_tile":
        _single(c, rep, T, Pos, coordsys, int(w["n"]), int(w["x"]), int(w["y"]))
    elif len(parts) == 3 and parts[1] == "toast_tile_for_point" and "weights" not in w:
        _lookup_case(c, rep, T, Pos, coordsys, int(w["depth"]), float(w["lat"]), float(w["lon"]))
    elif (obligation == "rt/routes/agree" or obligation.startswith("rt/toast_tile_for_point/")) and "weights" in w:
        _lookup_position_case(c, rep, T, Pos, coordsys, int(w["n"]), int(w["x"]), int(w["y"]), w["weights"])
    elif obligation == "rt/routes/agree":
        n, x, y = int(w["n"]), int(w["x"]), int(w["y"])
        cs = T.ToastCoordinateSystem(coordsys)
        tiles = {}
        tiles["create_single_tile"] = T.create_single_tile(Pos(n=n, x=x, y=y), coordsys=cs)
        if n <= 10:
            anc = set((k, x >> (n - k), y >> (n - k)) for k in range(1, n + 1))
            for t in T.generate_tiles_filtered(n, lambda tile: tuple(tile.pos) in anc, bottom_only=True, coordsys=cs):
                tiles["generate_tiles_filtered"] = t
            if n <= 8:
                for t in T.generate_tiles(n, bottom_only=True, coordsys=cs):
                    if (t.pos.x, t.pos.y) == (x, y):
                        tiles["generate_tiles"] = t
        q, _ = S.tile_quad(coordsys, n, x, y)
        lon, lat = S.v2ll(S.quad_centre(q, _))
        t = T.toast_tile_for_point(n, float(lat), float(lon), coordsys=cs)
        if tuple(t.pos) == (n, x, y):
            tiles["toast_tile_for_point"] = t
        names = sorted(tiles)
        for a in names:
            _check_tile(rep, coordsys, a, tiles[a])
            for b in names:
                if a < b:
                    _agree(rep, coordsys, a, tiles[a], b, tiles[b].corners, tiles[b].increasing)
    else:
        return True, "unknown obligation %r: nothing replayed" % obligation
    if c.violations:
        return False, "; ".join("%s: %s" % v for v in c.violations[:3])
    return True, "the recorded case now satisfies the property"
