"""C03 — bounded run-time driver: parallel stages hand every item to exactly one worker, then stop.

Stages driven (real public entry points, each serial and with worker processes):
  visit      Pyramid.visit_leaves                      items = leaf tiles (pos + tile geometry)
  transform  toasty.transform.u8_to_rgb                items = all positions of the pyramid
  multi_tan  MultiTanProcessor.tile                    items = input images on a common TAN grid
  multi_wcs  MultiWcsProcessor.tile                    items = input images with their own WCS
Observation is done from outside the repo: a recording callback (visit), a ``PyramidIO`` subclass
logging every ``read_image`` / ``write_image`` with pid and CLOCK_MONOTONIC time (the other three),
plus the files on disk when the stage returns.  Every run happens in a fresh interpreter under two
watchdogs (rt/c01_batch.py).

Schedules ("schedule" key of the witness):
  os               whatever the OS does, plus seeded per-item delays in the callback
  forced_mid_put   the producer is delayed (1 s queue time-out + 0.3 s) before the middle item, so
                   every worker sees an empty queue with the shutdown flag still down
  forced_last_put  the shutdown race of design_notes/experiments/c03_forced_schedule_race.py, made
                   load-independent: ``multiprocessing.Queue``/``Event`` are wrapped (harness side,
                   inherited by fork) so that the producer pauses before the *last* put for the
                   workers' queue time-out + 0.8 s, and a worker whose receive has just timed out
                   and that reads the flag during that final phase stays descheduled until the flag
                   has been raised.
  slow_flush_last  ``multiprocessing.Queue`` is wrapped (harness side) so that the last item put by the producer is slow to
  slow_flush_mid   serialise: pickling it in the queue's feeder thread takes two receive time-outs + 1 s (3 s; multi_wcs
                   21 s), un-pickling yields the item itself -- the feeder flush of a very large payload (multi_tan ships
                   whole images).  Every worker can sample the shutdown flag and sit through a full receive time-out
                   while the item is still on its way.  (slow_flush_mid: a middle item, flag still down.)  All are
                   ordinary interleavings of producer, feeder, receive time-outs and the shutdown
                   signal; nothing inside toasty is modified.

  slow_consumer    every item takes 1.3 s to process (harness-side sleep in the callback: "each_ms" of the witness' delay),
                   longer than any time-out of the hand-off, with more items than workers + queue slots: the bounded
                   queue stays full and the producer's blocking put has to sit through more than a second, again and
                   again, while all workers are busy (slow samplers, big input images, a loaded machine).
  slow_first_item  the first item each worker process handles takes 2.5 s ("first_ms": cold caches, a lazily imported
                   library), all others are fast: the queue fills up behind the first items (transform: 85 items > 2 + 32
                   slots; multi_tan: 8 inputs > 2 + 4) and the producer's put blocks for seconds once.
                   Both are plain OS schedules of the real code; nothing is wrapped except the callback / PyramidIO.

OBLIGATIONS (name — witness keys).  <s> in visit_leaves | transform | multi_tan | multi_wcs
  rt/<s>/every_item_once    — stage keys, missing, extra, duplicated
                              (multiset of processed items differs from the statement's item set;
                              for multi_* the item set is the one the serial run processed)
  rt/<s>/same_as_serial     — stage keys, detail   (result on disk / delivered geometry differs from
                              the serial run of the same input)
  rt/visit_leaves/own_geometry — stage keys, pos, tile_pos, max_err_rad
  rt/<s>/complete_on_return — stage keys, alive_workers, late_events, incomplete
                              (returned while a worker was alive / an item still in progress /
                              an output file missing or unreadable)
  rt/<s>/returns            — stage keys, watchdog_s
  rt/<s>/raises             — stage keys, exception   (raised although nothing failed)
  stage keys = stage, parallel, schedule, delay, [progress: true = run with cli_progress=True and JPY_PARENT_PID set (C19)] + for visit: kind, depth, accept, apex, coordsys;
  transform: depth, present (positions having an input tile); multi_tan / multi_wcs: pieces
  ([y0,x0,h,w] of each input in the mosaic), bottom_up.
  Object history (rt/c13_history.py): ONE Pyramid object lives through a program of operations (counters, leaf visits,
  walks, enumeration, subpyramid(apex), depth changes); every leaf visit of the program is held against the statement
  ("exactly the leaf tiles that pass the tile filter and lie in the selected sub-pyramid, each with its own tile") for the
  configuration the object has at that moment.  <h> is ``history_visit_serial`` / ``history_visit_parallel``.
  rt/<h>/every_item_once  — shape keys (as constructed), program, parallel, seed, delay_ms, step, op, config, missing, extra, duplicated
  rt/<h>/tile_of_pos      — ... step, op, pos, tile_pos
  rt/<h>/same_as_fresh    — ... step, op, history, fresh  (visit by the object with a history vs visit by a newly built
                            object of the same final configuration)
  rt/<h>/repeatable       — ... step, op, first_step      (the same visit twice under one configuration)
  rt/<h>/raises           — ... step, op, exception
  A history program that does not finish inside the watchdog is counted as undecided (a note), not as a violation.

BOUNDS
  quick   : visit: parallel in {2,3,16}: all accept-sets at depth 1, corner shapes depth 2..3, every
            apex at generic depth 2, depth 0 and 4, ~70 seeded random shapes depth 2..4 (queue capacity
            2*parallel exceeded whenever leaves > 2*parallel); transform depth 0..3 (85 items > 16*2,
            16*3); multi_tan 1..6 inputs, both storage parities; multi_wcs 2 and 3 inputs; forced
            schedules on all four stages, slow-flush schedules on visit, transform and multi_tan
            (multi_wcs: thorough only, a run lasts > 40 s).  Serial run of every case as well.
            Slow-consumer / slow-first-item schedules: 3 visits (16 leaves x 1.3 s with 2 and 3 workers, 64 leaves with
            a 2.5 s first item), transform depth 3 (85 items) and multi_tan with 8 inputs with a 2.5 s first item.
  thorough: ~2500 random visit shapes to depth 5, transform to depth 4 (341 items), more image
            collections, forced schedules for each worker count.
  Object history: quick: ~830 directed serial programs at depth 2 (every first operation x every apex / repetition / depth
            change, on 5 pyramid kinds) + 150 seeded random serial programs to depth 4 + 20 programs whose visits use 2/3
            worker processes; thorough: directed at depth 2 and 3, 1500 random, 120 with worker processes.
  Watchdog: 60 s (quick) / 120 s (thorough) per run; normal runs take 1-3 s (multi_wcs 10-25 s).

TRUSTED: npy / FITS / JPEG codecs; CLOCK_MONOTONIC shared across processes; the TOAST corner oracle
(spherical mid-points on unit vectors, level-1 layout from the module docstring of toasty.toast).
"""
import contextlib
import io
import math
import os
import random
import time

from rt import c13_quadtree as Q
from rt import c01_batch as B
from rt import c13_history as H

HIST = ("history_visit",)

CAP = 5
STAGE_NAME = {"visit": "visit_leaves", "transform": "transform", "multi_tan": "multi_tan", "multi_wcs": "multi_wcs", "walk": "walk"}


class InjectedError(Exception):
    """Fault injected by the harness (used by the C19 driver)."""


# Exception classes a processing step can raise (key "exc" of a case's "fail"; default InjectedError).  The C19 statement says
# "an error", whatever its class: generic errors, errors of the data (ValueError, KeyError, ZeroDivisionError, AssertionError),
# I/O errors (OSError and subclasses -- what real tile processing raises) and the classes the stages' own queue protocol
# uses internally (queue.Empty / queue.Full, EOFError, BrokenPipeError, TimeoutError).
EXC_CLASSES = ("InjectedError", "RuntimeError", "KeyError", "ValueError", "OSError", "FileNotFoundError", "PermissionError", "Empty", "Full",
               "ZeroDivisionError", "EOFError", "BrokenPipeError", "TimeoutError", "AssertionError")


def injected_exception(fail, msg):
    """The exception object to raise for the fault description ``fail`` ({"exc": class name, ...}).
    Key "after_s" of ``fail`` (C19, "slow failing item"): the failing step first works for that many seconds -- the sleep
    happens here, in the process and at the point where the fault is raised, after the item's start has been logged."""
    if (fail or {}).get("after_s"):
        time.sleep(float(fail["after_s"]))
    import builtins
    import errno
    import queue
    name = (fail or {}).get("exc") or "InjectedError"
    if name == "InjectedError":
        return InjectedError(msg)
    if name in ("Empty", "Full"):
        return getattr(queue, name)(msg)
    if name == "OSError":
        return OSError(errno.ENOSPC, msg)
    if name == "FileNotFoundError":
        return FileNotFoundError(errno.ENOENT, msg, "/nonexistent/injected")
    if name == "PermissionError":
        return PermissionError(errno.EACCES, msg, "/forbidden/injected")
    if name == "BrokenPipeError":
        return BrokenPipeError(errno.EPIPE, msg)
    if name == "TimeoutError":
        return TimeoutError(errno.ETIMEDOUT, msg)
    if name not in EXC_CLASSES:
        raise RuntimeError("unknown injected exception class %r" % (name,))
    return getattr(builtins, name)(msg)


# =============================================================================================
# independent TOAST corner oracle (unit vectors)

def _vec(lon_deg, lat_deg):
    lo, la = math.radians(lon_deg), math.radians(lat_deg)
    return (math.cos(la) * math.cos(lo), math.cos(la) * math.sin(lo), math.sin(la))


def _mid(a, b):
    s = (a[0] + b[0], a[1] + b[1], a[2] + b[2])
    n = math.sqrt(s[0] ** 2 + s[1] ** 2 + s[2] ** 2)
    return (s[0] / n, s[1] / n, s[2] / n)


def toast_corner_vectors(pos, coordsys):
    """(ul, ur, lr, ll) of a TOAST tile as unit vectors.  Level 1: the projection square has the
    north pole at its centre, the south pole at its four corners and the equator through the side
    mid-points; longitude 0 runs from the centre to the right (astronomical) or to the left
    (planetary), longitude +90 is a quarter turn counter-clockwise.  A tile is split at the
    mid-points of its sides and of the diagonal joining its two equatorial level-1 corners."""
    n, x, y = pos
    off = 180.0 if coordsys == "planetary" else 0.0
    N, S = (0.0, 0.0, 1.0), (0.0, 0.0, -1.0)
    right, up, left, down = _vec(off, 0), _vec(off + 90, 0), _vec(off + 180, 0), _vec(off + 270, 0)
    quads = {(0, 0): ((S, up, N, left), "ll-ur"), (1, 0): ((up, S, right, N), "ul-lr"),
             (0, 1): ((left, N, down, S), "ul-lr"), (1, 1): ((N, right, S, down), "ll-ur")}
    qx, qy = x >> (n - 1), y >> (n - 1)
    (ul, ur, lr, ll), diag = quads[(qx, qy)]
    for k in range(2, n + 1):
        bx, by = (x >> (n - k)) & 1, (y >> (n - k)) & 1
        to, ri, bo, le = _mid(ul, ur), _mid(ur, lr), _mid(lr, ll), _mid(ll, ul)
        ce = _mid(ll, ur) if diag == "ll-ur" else _mid(ul, lr)
        if (bx, by) == (0, 0):
            ul, ur, lr, ll = ul, to, ce, le
        elif (bx, by) == (1, 0):
            ul, ur, lr, ll = to, ur, ri, ce
        elif (bx, by) == (0, 1):
            ul, ur, lr, ll = le, ce, bo, ll
        else:
            ul, ur, lr, ll = ce, ri, lr, bo
    return ul, ur, lr, ll


def _lonlat_vec(lon, lat):
    return (math.cos(lat) * math.cos(lon), math.cos(lat) * math.sin(lon), math.sin(lat))


# =============================================================================================
# isolated side: logging, schedule injection, stage runners

class _Log(object):
    def __init__(self, logdir):
        self.dir = logdir
        self.fds = {}

    def write(self, typ, key, extra="-"):
        pid = os.getpid()
        fd = self.fds.get(pid)
        if fd is None:
            fd = os.open(os.path.join(self.dir, "%d.log" % pid), os.O_WRONLY | os.O_CREAT | os.O_APPEND, 0o644)
            self.fds.clear()
            self.fds[pid] = fd
        os.write(fd, ("%s %d %d %d %.9f %d %s\n" % (typ, key[0], key[1], key[2], time.monotonic(), pid, extra)).encode())


def read_events(logdir):
    ev = []
    for name in sorted(os.listdir(logdir)):
        if not name.endswith(".log"):
            continue
        with open(os.path.join(logdir, name)) as f:
            for line in f:
                parts = line.rstrip("\n").split(" ", 6)
                if len(parts) == 7:
                    ev.append([parts[0], int(parts[1]), int(parts[2]), int(parts[3]), float(parts[4]), int(parts[5]), parts[6]])
    return ev


_FIRST_ITEM_DONE = {}       # pid -> True once this process has handled its first item of the current case


def _delay_for(delay, key):
    """Seconds the harness-side callback / read wrapper sleeps for item ``key``: a seeded jitter of up to base_ms, the extra
    ms of the items listed in "slow", "each_ms" for every item (slow consumer) and "first_ms" for the first item that the
    calling process handles in this case (slow start of every worker)."""
    if not delay:
        return 0.0
    r = random.Random(delay.get("seed", 0) * 7919 + key[0] * 1000003 + key[1] * 1009 + key[2])
    d = r.random() * delay.get("base_ms", 0.0) / 1000.0
    for sn, sx, sy, ms in delay.get("slow", []):
        if (sn, sx, sy) == tuple(key):
            d += ms / 1000.0
    d += delay.get("each_ms", 0.0) / 1000.0
    if delay.get("first_ms"):
        pid = os.getpid()
        if not _FIRST_ITEM_DONE.get(pid):
            _FIRST_ITEM_DONE.clear()
            _FIRST_ITEM_DONE[pid] = True
            d += delay["first_ms"] / 1000.0
    return d


def _identity(x):
    return x


_WORKER_FAULT_DONE = {}


def _worker_base():
    """Called in the parent right before a stage starts its workers: the number multiprocessing gave to the process object
    created last (creating -- not starting -- a Process draws the next number), so the stage's k-th worker gets base + k."""
    import multiprocessing as mp
    return mp.Process(target=_identity, args=(0,))._identity[-1]


def _worker_fault_hits(fail, base):
    """Fault description {"worker": k}: "the k-th worker process the stage started (1-based) fails at the first item it
    handles" (C19: an error in ANY worker).  True exactly once, in that process; never in the parent (serial mode)."""
    if not fail or fail.get("worker") is None:
        return False
    import multiprocessing as mp
    ident = mp.current_process()._identity
    if not ident or ident[-1] != base + int(fail["worker"]):
        return False
    pid = os.getpid()
    if _WORKER_FAULT_DONE.get(pid):
        return False
    _WORKER_FAULT_DONE.clear()
    _WORKER_FAULT_DONE[pid] = True
    return True


class _SlowPickle(object):
    """Stands in for an item whose serialisation takes ``secs`` seconds (a very large payload): pickling -- done by the
    queue's feeder thread -- sleeps, un-pickling yields the original item itself."""

    def __init__(self, item, secs):
        self.item, self.secs = item, secs

    def __reduce__(self):
        time.sleep(self.secs)
        return (_identity, (self.item,))


class _Schedule(object):
    """Wraps multiprocessing.Queue / Event for the forced schedules (see module docstring)."""

    def __init__(self, spec):
        import multiprocessing as mp
        self.mp = mp
        self.real_Event, self.real_Queue = mp.Event, mp.Queue
        self.armed = self.real_Event()
        self.calls = mp.Value("i", 0)
        self.local = {"empty": False}
        sched = self
        k_delay, delay_s, wait_s, arm = spec.get("at_put", 0), spec.get("delay_s", 0.0), spec.get("wait_s", 0.0), spec.get("arm", False)
        slow_puts, slow_s = set(spec.get("slow_puts") or []), spec.get("slow_s", 0.0)

        class SchedEvent(object):
            def __init__(self):
                self._e = sched.real_Event()

            def set(self):
                return self._e.set()

            def clear(self):
                return self._e.clear()

            def wait(self, timeout=None):
                return self._e.wait(timeout)

            def is_set(self):
                with sched.calls.get_lock():
                    sched.calls.value += 1
                if sched.armed.is_set() and sched.local["empty"] and not self._e.is_set():
                    # this worker's last receive timed out and the producer is in its final phase:
                    # the worker stays descheduled until the flag has been raised (bounded)
                    self._e.wait(wait_s)
                    time.sleep(0.05)
                return self._e.is_set()

        class SchedQueue(object):
            def __init__(self, *a, **k):
                self._q = sched.real_Queue(*a, **k)
                self._n = 0
                self._delayed = set()

            def put(self, item, *a, **k):
                idx = self._n + 1          # ordinal of the item being handed over (a put that times out with Full is retried)
                with sched.calls.get_lock():
                    sched.calls.value += 1
                if idx == k_delay and idx not in self._delayed:
                    self._delayed.add(idx)
                    if arm:
                        sched.armed.set()
                    time.sleep(delay_s)
                if idx in slow_puts:
                    item = _SlowPickle(item, slow_s)       # the feeder thread needs slow_s to flush this item
                r = self._q.put(item, *a, **k)
                self._n = idx
                return r

            def get(self, *a, **k):
                from queue import Empty
                try:
                    item = self._q.get(*a, **k)
                except Empty:
                    sched.local["empty"] = True      # process-local: every worker is its own process
                    raise
                sched.local["empty"] = False
                return item

            def __getattr__(self, name):
                return getattr(self._q, name)

        mp.Event = SchedEvent
        mp.Queue = SchedQueue

    def n_calls(self):
        return self.calls.value

    def uninstall(self):
        self.mp.Event, self.mp.Queue = self.real_Event, self.real_Queue


def _progress(case):
    """True when the case asks for the progress bar on terminal-like output (key "progress" of a case / witness)."""
    return bool(case.get("progress"))


def _guarded(case, logdir, body):
    import multiprocessing as mp
    sched = _Schedule(case["sched"]) if case.get("sched") else None
    before = set(p.pid for p in mp.active_children())      # leftovers of an earlier, failed case of this batch
    exc = None
    # "progress": the stage is called with cli_progress=True (by its runner) in an environment whose output counts as
    # terminal-like for toasty.progress: JPY_PARENT_PID set, as inside a Jupyter kernel (stdout itself is not a tty here).
    # The bar (tqdm, on stderr) is sent to /dev/null; stdout is captured as always.
    old_jpy = os.environ.get("JPY_PARENT_PID")
    if _progress(case):
        os.environ["JPY_PARENT_PID"] = "1"
    else:
        os.environ.pop("JPY_PARENT_PID", None)
    t0 = time.monotonic()
    try:
        with contextlib.ExitStack() as stack:
            stack.enter_context(contextlib.redirect_stdout(io.StringIO()))
            if _progress(case):
                stack.enter_context(contextlib.redirect_stderr(stack.enter_context(open(os.devnull, "w"))))
            body()
    except Exception as e:
        exc = "%s: %s" % (type(e).__name__, e)
    finally:
        if old_jpy is None:
            os.environ.pop("JPY_PARENT_PID", None)
        else:
            os.environ["JPY_PARENT_PID"] = old_jpy
    t1 = time.monotonic()
    alive = len([p for p in mp.active_children() if p.pid not in before])
    if sched:
        sched.uninstall()
    if case.get("parallel", 1) > 1:
        time.sleep(0.25)          # give a worker that outlived the return the time to leave a trace
    for p in mp.active_children():
        try:
            p.kill()
        except Exception:
            pass
    return {"events": read_events(logdir), "exception": exc, "t0": t0, "t1": t1, "alive_after": alive,
            "sched_calls": sched.n_calls() if sched else None}


def _logdir(case, name="log"):
    import tempfile
    base = case.get("_dir") or tempfile.mkdtemp(prefix="c03_")
    d = os.path.join(base, "%s_%s" % (name, case["id"]))
    os.makedirs(d, exist_ok=True)
    return d


def _fail_input(case):
    """Index of the input image that is made unreadable (its file removed) between the set-up of a multi-image tiling and
    the call of ``tile``: key "input" of the fault description."""
    f = case.get("fail")
    return f["input"] if f and f.get("input") is not None else None


def _fail_pos(case):
    f = case.get("fail")
    return tuple(f["pos"]) if f and f.get("pos") is not None else None


# ---- visit / walk ------------------------------------------------------------------------------

def _geom(tile):
    if tile is None:
        return "-"
    c = tile.corners
    vals = [tile.pos.n, tile.pos.x, tile.pos.y, int(bool(tile.increasing))]
    s = " ".join(str(v) for v in vals)
    for i in range(4):
        s += " %r %r" % (float(c[i][0]), float(c[i][1]))
    return s


def _run_visit(case):
    logdir = _logdir(case)
    log = _Log(logdir)
    kind, depth, acc, apex, cs = Q.shape_from_witness(case)
    pyr = Q.make_pyramid(kind, depth, acc, apex, cs)
    delay = case.get("delay")
    fpos = _fail_pos(case)

    base = _worker_base()

    def cb(pos, tile):
        key = (pos.n, pos.x, pos.y)
        log.write("S", key, _geom(tile))
        if key == fpos:
            raise injected_exception(case.get("fail"), "injected failure at leaf %s" % (key,))
        if _worker_fault_hits(case.get("fail"), base):
            log.write("F", key)
            raise injected_exception(case.get("fail"), "injected failure in worker %s at leaf %s" % (case["fail"]["worker"], key))
        d = _delay_for(delay, key)
        if d:
            time.sleep(d)
        log.write("E", key)

    return _guarded(case, logdir, lambda: pyr.visit_leaves(cb, parallel=case["parallel"], cli_progress=_progress(case)))


def _run_walk(case):
    logdir = _logdir(case)
    log = _Log(logdir)
    kind, depth, acc, apex, cs = Q.shape_from_witness(case)
    pyr = Q.make_pyramid(kind, depth, acc, apex, cs)
    delay = case.get("delay")
    fpos = _fail_pos(case)

    base = _worker_base()

    def cb(pos):
        key = (pos.n, pos.x, pos.y)
        log.write("S", key)
        if key == fpos:
            raise injected_exception(case.get("fail"), "injected failure at tile %s" % (key,))
        if _worker_fault_hits(case.get("fail"), base):
            log.write("F", key)
            raise injected_exception(case.get("fail"), "injected failure in worker %s at tile %s" % (case["fail"]["worker"], key))
        d = _delay_for(delay, key)
        if d:
            time.sleep(d)
        log.write("E", key)

    return _guarded(case, logdir, lambda: pyr.walk(cb, parallel=case["parallel"], cli_progress=_progress(case)))


# ---- logging PyramidIO ----------------------------------------------------------------------

def make_logging_pio(base_dir, fmt, log, delay=None, fail_pos=None, fail_on="R", fail=None):
    from toasty.pyramid import PyramidIO
    base = _worker_base()      # the stage's workers are the next processes this (parent) process starts

    class LoggingPIO(PyramidIO):
        def read_image(self, pos, *a, **k):
            key = (pos.n, pos.x, pos.y)
            log.write("R", key)
            if fail_on == "R" and key == fail_pos:
                raise injected_exception(fail, "injected read failure at %s" % (key,))
            if fail_on == "R" and _worker_fault_hits(fail, base):
                log.write("F", key)
                raise injected_exception(fail, "injected read failure in worker %s at %s" % (fail["worker"], key))
            d = _delay_for(delay, key)
            if d:
                time.sleep(d)
            return PyramidIO.read_image(self, pos, *a, **k)

        def write_image(self, pos, image, *a, **k):
            key = (pos.n, pos.x, pos.y)
            if fail_on == "W" and key == fail_pos:
                raise injected_exception(fail, "injected write failure at %s" % (key,))
            r = PyramidIO.write_image(self, pos, image, *a, **k)
            log.write("W", key)
            return r

    return LoggingPIO(base_dir, default_format=fmt)


# ---- transform ----------------------------------------------------------------------------------

def _tile_value(p):
    return (37 * p[0] + 11 * p[1] + 5 * p[2]) % 200 + 20


def _run_transform(case):
    import numpy as np
    from toasty.pyramid import Pos
    from toasty import transform
    logdir = _logdir(case)
    log = _Log(logdir)
    base = os.path.join(os.path.dirname(logdir), "pyr_%s" % case["id"])
    pio = make_logging_pio(base, "png", log, case.get("delay"), _fail_pos(case), "R", case.get("fail"))
    present = [tuple(p) for p in case["present"]]
    for p in present:
        path = pio.tile_path(Pos(n=p[0], x=p[1], y=p[2]), format="npy")
        np.save(path, np.full((256, 256), _tile_value(p), dtype=np.uint8))
    res = _guarded(case, logdir, lambda: transform.u8_to_rgb(pio, case["depth"], parallel=case["parallel"], cli_progress=_progress(case)))
    # state of the disk when the stage returned (read right after; the 0.25 s pause is over)
    bad = []
    if not case.get("fail"):
        from PIL import Image as PILImage
        for p in present:
            path = pio.tile_path(Pos(n=p[0], x=p[1], y=p[2]), format="jpg", makedirs=False)
            try:
                st = os.stat(path)
                if st.st_mtime > time.time() + 1:
                    raise ValueError("mtime in the future")
                a = np.asarray(PILImage.open(path))
                if a.shape != (256, 256, 3) or abs(float(a.mean()) - _tile_value(p)) > 3.0 or int(a.max()) - int(a.min()) > 6:
                    bad.append([list(p), "content mean %.1f shape %s, expected constant %d" % (float(a.mean()), a.shape, _tile_value(p))])
            except Exception as e:
                bad.append([list(p), repr(e)])
        extra_out = []
        for n in range(case["depth"] + 1):
            for p in Q.level_positions(n):
                if p not in present and os.path.exists(pio.tile_path(Pos(n=p[0], x=p[1], y=p[2]), format="jpg", makedirs=False)):
                    extra_out.append(list(p))
        res["extra_outputs"] = extra_out
    res["bad_outputs"] = bad
    return res


# ---- multi_tan / multi_wcs ----------------------------------------------------------------------

def _mosaic(seed, H, W):
    import numpy as np
    return np.random.default_rng(seed).random((H, W)).astype(np.float32) + 1.0


def _write_tan_pieces(case, d):
    """Cut the pieces out of one mosaic and store them as FITS files on a common TAN grid."""
    import numpy as np
    from astropy.io import fits
    from astropy.wcs import WCS
    H, W = case["mosaic"]
    mos = _mosaic(case["seed"], H, W)

    def mkwcs(crpix1, crpix2, cd2):
        w = WCS(naxis=2)
        w.wcs.ctype = ["RA---TAN", "DEC--TAN"]
        w.wcs.crval = [10, 20]
        w.wcs.crpix = [crpix1, crpix2]
        w.wcs.cdelt = [-0.001, cd2]
        return w

    g1, g2 = W / 2 + 0.5, H / 2 + 0.5
    paths = []
    for k, (y0, x0, h, w) in enumerate(case["pieces"]):
        sub = mos[y0:y0 + h, x0:x0 + w]
        if case.get("bottom_up"):
            sub = sub[::-1]
            wc = mkwcs(g1 - x0, h + 1 - (g2 - y0), +0.001)
        else:
            wc = mkwcs(g1 - x0, g2 - y0, -0.001)
        p = os.path.join(d, "piece%d.fits" % k)
        fits.PrimaryHDU(np.ascontiguousarray(sub), header=wc.to_header()).writeto(p, overwrite=True)
        paths.append(p)
    return mos, paths


def _expected_union(case, mos):
    import numpy as np
    ys = [p[0] for p in case["pieces"]] + [p[0] + p[2] for p in case["pieces"]]
    xs = [p[1] for p in case["pieces"]] + [p[1] + p[3] for p in case["pieces"]]
    y0, y1, x0, x1 = min(ys), max(ys), min(xs), max(xs)
    ref = np.full((y1 - y0, x1 - x0), np.nan, np.float32)
    for (yy, xx, h, w) in case["pieces"]:
        ref[yy - y0:yy - y0 + h, xx - x0:xx - x0 + w] = mos[yy:yy + h, xx:xx + w]
    return ref


def _assemble(pio, level):
    """All tiles of the deepest level as one array in display (top-down) orientation."""
    import numpy as np
    from toasty.pyramid import Pos, PyramidIO
    side = 256 * 2 ** level
    big = np.full((side, side), np.nan, np.float32)
    flip = pio.get_default_vertical_parity_sign() == 1
    for y in range(2 ** level):
        for x in range(2 ** level):
            img = PyramidIO.read_image(pio, Pos(n=level, x=x, y=y))
            if img is None:
                continue
            a = img.asarray()
            big[256 * y:256 * y + 256, 256 * x:256 * x + 256] = a[::-1] if flip else a
    return big


def _finite_bbox(big):
    import numpy as np
    f = np.isfinite(big)
    if not f.any():
        return None
    rows, cols = np.where(f.any(axis=1))[0], np.where(f.any(axis=0))[0]
    return int(rows[0]), int(rows[-1]) + 1, int(cols[0]), int(cols[-1]) + 1


def _locks(base):
    out = []
    for root, _d, files in os.walk(base):
        out.extend(f for f in files if f.endswith(".lock"))
    return out


def _run_multi_tan(case):
    import warnings
    import numpy as np
    warnings.simplefilter("ignore")
    from toasty import collection, multi_tan, builder
    logdir = _logdir(case)
    base = os.path.dirname(logdir)
    src = os.path.join(base, "src_%s" % case["id"])
    os.makedirs(src, exist_ok=True)
    mos, paths = _write_tan_pieces(case, src)

    def tile(outdir, log, parallel, fail_pos=None, delay=None, progress=False, lose_input=None):
        pio = make_logging_pio(outdir, "fits", log, delay, fail_pos, "R", case.get("fail"))
        b = builder.Builder(pio)
        proc = multi_tan.MultiTanProcessor(collection.load(paths))
        proc.compute_global_pixelization(b)
        holder["pio"], holder["level"] = pio, b.imgset.tile_levels
        if lose_input is not None:
            os.unlink(paths[lose_input])      # this input has become unreadable by the time the tiling starts
        proc.tile(pio, parallel=parallel, cli_progress=progress)

    holder = {}
    # serial reference of the same input (the statement's item set)
    ref_logdir = _logdir(case, "reflog")
    sched, case_sched = case.get("sched"), None
    ref_case = dict(case)
    ref_case["sched"] = None
    if case.get("fail"):      # C19 runs: no reference needed
        ref = {"events": [], "exception": None}
        ref_big = None
    else:
        ref = _guarded(ref_case, ref_logdir, lambda: tile(os.path.join(base, "ref_%s" % case["id"]), _Log(ref_logdir), 1))
        ref_big = _assemble(holder["pio"], holder["level"]) if ref["exception"] is None else None
    res = _guarded(case, logdir, lambda: tile(os.path.join(base, "out_%s" % case["id"]), _Log(logdir), case["parallel"], _fail_pos(case), case.get("delay"),
                                              _progress(case), _fail_input(case)))
    res["ref_events"] = ref["events"]
    res["ref_exception"] = ref["exception"]
    res["level"] = holder.get("level")
    detail = []
    if res["exception"] is None and not case.get("fail") and ref_big is not None:
        big = _assemble(holder["pio"], holder["level"])
        if not np.array_equal(big, ref_big, equal_nan=True):
            detail.append("deepest-level tiles differ from the serial run in %d pixels" % int(np.sum(~((big == ref_big) | (np.isnan(big) & np.isnan(ref_big))))))
        want = _expected_union(case, mos)
        bb = _finite_bbox(big)
        if bb is None:
            res["oracle_detail"] = "no finite pixel in the pyramid"
        else:
            got = big[bb[0]:bb[1], bb[2]:bb[3]]
            if got.shape != want.shape:
                res["oracle_detail"] = "finite area %s, mosaic of the inputs %s" % (got.shape, want.shape)
            elif not np.array_equal(got, want, equal_nan=True):
                res["oracle_detail"] = "%d pixels differ from the mosaic of the inputs" % int(np.sum(~((got == want) | (np.isnan(got) & np.isnan(want)))))
        locks = _locks(os.path.join(base, "out_%s" % case["id"]))
        if locks:
            detail.append("lock files left: %s" % locks[:3])
    res["serial_detail"] = detail
    return res


def _write_wcs_pieces(case, d):
    import numpy as np
    from astropy.io import fits
    from astropy.wcs import WCS
    paths = []
    rng = np.random.default_rng(case["seed"])
    for k, (dy, dx, h, w) in enumerate(case["pieces"]):
        wc = WCS(naxis=2)
        wc.wcs.ctype = ["RA---TAN", "DEC--TAN"]
        # every image has its own tangent point and a slightly different scale: separate WCSs,
        # footprints disjoint on the sky (offsets are in units of 0.01 deg, images span < 0.006 deg)
        wc.wcs.crval = [10 + 0.01 * dx, 20 + 0.01 * dy]
        wc.wcs.crpix = [w / 2 + 0.5, h / 2 + 0.5]
        s = 0.0001 * (1 + 0.05 * k)
        wc.wcs.cdelt = [-s, s]
        arr = (rng.random((h, w)).astype(np.float32) + 1.0 + k)
        p = os.path.join(d, "img%d.fits" % k)
        fits.PrimaryHDU(arr, header=wc.to_header()).writeto(p, overwrite=True)
        paths.append(p)
    return paths


def _run_multi_wcs(case):
    import warnings
    import numpy as np
    warnings.simplefilter("ignore")
    from toasty import collection, multi_wcs, builder
    from reproject import reproject_interp
    logdir = _logdir(case)
    base = os.path.dirname(logdir)
    src = os.path.join(base, "src_%s" % case["id"])
    os.makedirs(src, exist_ok=True)
    paths = _write_wcs_pieces(case, src)
    fail = case.get("fail")
    fail_image = fail.get("image") if fail else None

    def make_reproject(active):
        def rp(input_data, **kw):
            arr = input_data[0]
            if active and fail_image is not None and int(math.floor(float(np.nanmin(arr)))) - 1 == fail_image:
                raise injected_exception(fail, "injected reprojection failure for input %d" % fail_image)
            return reproject_interp(input_data, **kw)
        return rp

    holder = {}

    def tile(outdir, log, parallel, active):
        pio = make_logging_pio(outdir, "fits", log, None, None, "R")
        b = builder.Builder(pio)
        proc = multi_wcs.MultiWcsProcessor(collection.load(paths))
        proc.compute_global_pixelization(b)
        holder["pio"], holder["level"] = pio, b.imgset.tile_levels
        if active and _fail_input(case) is not None:
            os.unlink(paths[_fail_input(case)])      # this input has become unreadable by the time the tiling starts
        proc.tile(pio, make_reproject(active), parallel=parallel, cli_progress=active and _progress(case))

    ref_logdir = _logdir(case, "reflog")
    ref_case = dict(case)
    ref_case["sched"] = None
    if fail:                  # C19 runs: no reference needed
        ref = {"events": [], "exception": None}
        ref_big = None
    else:
        ref = _guarded(ref_case, ref_logdir, lambda: tile(os.path.join(base, "ref_%s" % case["id"]), _Log(ref_logdir), 1, False))
        ref_big = _assemble(holder["pio"], holder["level"]) if ref["exception"] is None else None
    res = _guarded(case, logdir, lambda: tile(os.path.join(base, "out_%s" % case["id"]), _Log(logdir), case["parallel"], True))
    res["ref_events"] = ref["events"]
    res["ref_exception"] = ref["exception"]
    res["level"] = holder.get("level")
    detail = []
    if res["exception"] is None and not fail and ref_big is not None:
        big = _assemble(holder["pio"], holder["level"])
        if not np.array_equal(big, ref_big, equal_nan=True):
            detail.append("deepest-level tiles differ from the serial run in %d pixels" % int(np.sum(~((big == ref_big) | (np.isnan(big) & np.isnan(ref_big))))))
        res["finite_pixels"] = int(np.isfinite(big).sum())
        locks = _locks(os.path.join(base, "out_%s" % case["id"]))
        if locks:
            detail.append("lock files left: %s" % locks[:3])
    res["serial_detail"] = detail
    return res


def stage_case(case):
    _FIRST_ITEM_DONE.clear()
    if "program" in case:           # object-history case (rt/c13_history.py)
        return H.run_history(case)
    return {"visit": _run_visit, "walk": _run_walk, "transform": _run_transform, "multi_tan": _run_multi_tan,
            "multi_wcs": _run_multi_wcs}[case["stage"]](case)


# =============================================================================================
# driver side

_WKEYS = {"visit": ("kind", "depth", "accept", "apex", "coordsys"), "walk": ("kind", "depth", "accept", "apex", "coordsys"),
          "transform": ("depth", "present"), "multi_tan": ("pieces", "bottom_up", "mosaic", "seed"),
          "multi_wcs": ("pieces", "seed")}


def witness_of(case, **extra):
    w = {"stage": case["stage"], "parallel": case["parallel"], "schedule": case.get("schedule", "os"), "delay": case.get("delay"),
         "sched": case.get("sched")}
    for k in _WKEYS[case["stage"]]:
        w[k] = case.get(k)
    if _progress(case):
        w["progress"] = True
    w.update(extra)
    return w


def case_from_witness(w):
    c = {k: w.get(k) for k in ("stage", "parallel", "schedule", "delay", "sched", "fail") + _WKEYS[w["stage"]]}
    if c.get("coordsys") is None and w["stage"] in ("visit", "walk"):
        c["coordsys"] = "astronomical"
    if w.get("progress"):
        c["progress"] = True
    return c


def _ms(events, typ):
    d = {}
    for e in events:
        if e[0] == typ:
            d.setdefault((e[1], e[2], e[3]), []).append(e)
    return d


def _multiset_viol(obl, case, got, want_counts, what):
    """got: {item: [events]}, want_counts: {item: n}"""
    missing = sorted(p for p, n in want_counts.items() if len(got.get(p, [])) < n)
    extra = sorted(p for p in got if p not in want_counts)
    dup = sorted(p for p, evs in got.items() if p in want_counts and len(evs) > want_counts[p])
    if missing or extra or dup:
        return [(obl, witness_of(case, missing=[list(p) for p in missing[:8]], extra=[list(p) for p in extra[:8]], duplicated=[list(p) for p in dup[:8]]),
                 "%s: %d items expected, %d processed; missing %s extra %s processed too often %s" % (
                     what, sum(want_counts.values()), sum(len(v) for v in got.values()), missing[:4], extra[:4], dup[:4]))]
    return []


def evaluate(case, outcome, watchdog, serial_geom=None):
    """-> list of (obligation, witness, message).  Only meaningful for cases without injected fault."""
    s = STAGE_NAME[case["stage"]]
    out = []
    if outcome["status"] == "timeout":
        return [("rt/%s/returns" % s, witness_of(case, watchdog_s=watchdog),
                 "%s(parallel=%d, schedule %s) had not returned after %s s" % (s, case["parallel"], case.get("schedule", "os"), outcome.get("secs")))]
    if outcome["status"] != "done":
        return out
    res = outcome["result"]
    if res["exception"]:
        out.append(("rt/%s/raises" % s, witness_of(case, exception=res["exception"]), "%s raised %s" % (s, res["exception"])))
    ev = res["events"]
    late = [e for e in ev if e[4] > res["t1"] + 1e-6]
    incomplete = []
    stage = case["stage"]
    if stage == "visit":
        kind, depth, acc, apex, cs = Q.shape_from_witness(case)
        exp = Q.Expect(kind, depth, acc, apex)
        starts, ends = _ms(ev, "S"), _ms(ev, "E")
        if not res["exception"]:
            out += _multiset_viol("rt/%s/every_item_once" % s, case, starts, {p: 1 for p in exp.leaves}, "leaf visits")
        incomplete = [list(p) for p in starts if p not in ends][:8]
        for p, evs in starts.items():
            g = evs[0][6]
            want_tile = kind != "g" and depth >= 1
            if not want_tile:
                if g != "-":
                    out.append(("rt/visit_leaves/own_geometry", witness_of(case, pos=list(p), tile_pos=g[:40], max_err_rad=None),
                                "leaf %s of a pyramid without tile geometry delivered with a tile" % (p,)))
                continue
            if g == "-":
                out.append(("rt/visit_leaves/own_geometry", witness_of(case, pos=list(p), tile_pos=None, max_err_rad=None), "leaf %s delivered without its tile" % (p,)))
                continue
            f = g.split()
            tp = (int(f[0]), int(f[1]), int(f[2]))
            vecs = toast_corner_vectors(p, cs)
            err = 0.0
            for i in range(4):
                v = _lonlat_vec(float(f[4 + 2 * i]), float(f[5 + 2 * i]))
                err = max(err, math.sqrt(sum((v[j] - vecs[i][j]) ** 2 for j in range(3))))
            if tp != p or err > 1e-7:
                out.append(("rt/visit_leaves/own_geometry", witness_of(case, pos=list(p), tile_pos=list(tp), max_err_rad=err),
                            "leaf %s delivered with tile %s whose corners are %.3g rad from the tile's own corners" % (p, tp, err)))
            if serial_geom is not None and p in serial_geom and serial_geom[p] != g:
                out.append(("rt/visit_leaves/same_as_serial", witness_of(case, detail="tile of %s: %s vs serial %s" % (p, g[:60], serial_geom[p][:60])),
                            "leaf %s: tile delivered in parallel differs from the one delivered serially" % (p,)))
    elif stage == "transform":
        reads, writes = _ms(ev, "R"), _ms(ev, "W")
        allpos = {p: 1 for p in Q.all_positions(case["depth"])}
        present = {tuple(p): 1 for p in case["present"]}
        mv = []
        if not res["exception"]:
            mv = _multiset_viol("rt/%s/every_item_once" % s, case, reads, allpos, "tiles read")
            if not mv:
                mv = _multiset_viol("rt/%s/every_item_once" % s, case, writes, present, "tiles written")
            out += mv
        if not mv:      # an item that was never handed to a worker is reported once, above
            incomplete = [b[0] for b in res.get("bad_outputs", [])][:8] + res.get("extra_outputs", [])[:4]
    else:
        writes, ref_writes = _ms(ev, "W"), _ms(res["ref_events"], "W")
        if res.get("ref_exception"):
            out.append(("rt/%s/raises" % s, witness_of(dict(case, parallel=1), exception=res["ref_exception"]), "serial %s raised %s" % (s, res["ref_exception"])))
        elif not res["exception"]:
            mv = _multiset_viol("rt/%s/every_item_once" % s, case, writes, {p: len(v) for p, v in ref_writes.items()}, "tile updates (vs serial run)")
            out += mv
            for d in res.get("serial_detail", []):
                out.append(("rt/%s/same_as_serial" % s, witness_of(case, detail=d), d))
            if res.get("oracle_detail") and not mv:
                out.append(("rt/%s/every_item_once" % s, witness_of(case, missing=[], extra=[], duplicated=[], detail=res["oracle_detail"]),
                            "pyramid content vs the inputs: %s" % res["oracle_detail"]))
    if not res["exception"] and (res["alive_after"] or late or incomplete):
        out.append(("rt/%s/complete_on_return" % s, witness_of(case, alive_workers=res["alive_after"], late_events=len(late), incomplete=incomplete),
                    "%s returned with %d worker(s) alive, %d event(s) logged after the return, unfinished/incorrect items %s" % (
                        s, res["alive_after"], len(late), incomplete[:4])))
    return out


# ---- case construction -----------------------------------------------------------------------

def _visit_case(kind, depth, accept, apex, parallel, delay, coordsys="astronomical", **kw):
    c = Q.shape_witness(kind, depth, accept, apex, coordsys)
    c.update(stage="visit", parallel=parallel, delay=delay, schedule="os", sched=None)
    c.update(kw)
    return c


def forced(case, mode, n_items, get_timeout=1.0):
    """Turn a case into a forced-schedule case (n_items = number of puts the producer will make)."""
    c = dict(case)
    if mode in ("slow_last", "slow_mid"):
        # the feeder thread needs two receive time-outs + 1 s to flush one item (a payload that is slow to serialise): every
        # worker can run through "sample the flag, wait one full receive time-out" at least once while that item is on its way
        k = n_items if mode == "slow_last" else max(1, (n_items + 1) // 2)
        c["schedule"] = "slow_flush_last" if mode == "slow_last" else "slow_flush_mid"
        c["sched"] = {"at_put": 0, "delay_s": 0.0, "wait_s": 0.0, "arm": False, "slow_puts": [k], "slow_s": 2 * get_timeout + 1.0}
        return c
    if mode == "last":
        c["schedule"] = "forced_last_put"
        c["sched"] = {"at_put": n_items, "delay_s": get_timeout + 0.8, "wait_s": get_timeout + 4.0, "arm": True}
    else:
        c["schedule"] = "forced_mid_put"
        c["sched"] = {"at_put": max(1, (n_items + 1) // 2), "delay_s": get_timeout + 0.3, "wait_s": 0.0, "arm": False}
    return c


def build_cases(rng, thorough):
    W3 = (2, 3, 16)
    cases, bounds, long_cases = [], [], []
    k = [0]

    def par():
        k[0] += 1
        return W3[k[0] % 3]

    def dl(base=4.0, **kw):
        d = {"seed": rng.randrange(10 ** 6), "base_ms": base, "slow": []}
        d.update(kw)
        return d

    # ---------------- visit
    for mask in range(16):
        acc = [p for i, p in enumerate(Q.level_positions(1)) if (mask >> i) & 1]
        cases.append(_visit_case("f", 1, acc, None, par(), dl()))
    for kind in "gt":
        cases.append(_visit_case(kind, 0, [], None, par(), dl()))
        cases.append(_visit_case(kind, 2, [], (2, 3, 1), par(), dl()))
        cases.append(_visit_case(kind, 4, [], None, 2, dl(1.0)))
        cases.append(_visit_case(kind, 4, [], None, 16, dl(1.0), "planetary"))
    cmax = 4 if thorough else 3
    for depth in range(2, cmax + 1):
        for kind, d, acc, apex in Q.corner_shapes(depth):
            cases.append(_visit_case(kind, d, acc, apex, par(), dl()))
    for apex in Q.all_positions(2):
        cases.append(_visit_case("g", 2, [], apex, par(), dl()))
    bounds.append("visit_leaves, workers {2,3,16} (queue capacities 4, 6, 32): all 16 accept-sets at depth 1; depth 0; apex at the pyramid "
                  "depth; full depth-4 pyramids (256 leaves); corner shapes depth 2..%d; every apex of the generic depth-2 pyramid" % cmax)
    n_rand = 2500 if thorough else 70
    dch = [2, 3, 3, 4, 4, 5] if thorough else [2, 3, 3, 4]
    for _ in range(n_rand):
        depth = rng.choice(dch)
        kind = rng.choice("gtfff")
        acc = Q.random_accept(rng, depth) if kind == "f" else []
        apex = Q.random_apex(rng, depth, acc, kind)
        n_leaves = len(Q.Expect(kind, depth, acc, apex).leaves)
        base = 6.0 if n_leaves < 40 else (2.0 if n_leaves < 300 else 0.6)
        slow = []
        if n_leaves and rng.random() < 0.5:
            lv = sorted(Q.Expect(kind, depth, acc, apex).leaves)
            for p in rng.sample(lv, min(len(lv), 2)):
                slow.append([p[0], p[1], p[2], rng.choice([30.0, 120.0])])
        cases.append(_visit_case(kind, depth, acc, apex, par(), dl(base, slow=slow), rng.choice(["astronomical", "planetary"])))
    bounds.append("visit_leaves: %d seeded random shapes (depth in %s, generic/TOAST/filtered, random apex, both coordinate systems, per-leaf "
                  "delays up to 6 ms, 0-2 leaves slowed by 30/120 ms)" % (n_rand, sorted(set(dch))))
    # forced schedules on visit
    fw = W3 if thorough else (2, 3)
    for w in fw:
        acc4 = Q.all_positions(1, 1)
        cases.append(forced(_visit_case("f", 1, acc4, None, w, None), "last", 4))
        cases.append(forced(_visit_case("g", 2, [], None, w, None), "last", 16))
        cases.append(forced(_visit_case("t", 2, [], None, w, None), "mid", 16))
    acc = Q.random_accept(rng, 3, 0.8)
    nl = len(Q.Expect("f", 3, acc, None).leaves)
    if nl:
        cases.append(forced(_visit_case("f", 3, acc, None, 2, None), "last", nl))
    for w in fw:
        cases.append(forced(_visit_case("g", 2, [], None, w, None), "slow_last", 16))
    cases.append(forced(_visit_case("f", 1, Q.all_positions(1, 1), None, 3, None), "slow_last", 4))
    bounds.append("visit_leaves slow-flush schedule, workers %s: the feeder thread needs 3 s (two receive time-outs + 1 s) to serialise the "
                  "last item (16-leaf generic pyramid; 4-leaf filtered TOAST pyramid with 3 workers)" % (list(fw),))
    bounds.append("visit_leaves forced schedules, workers %s: producer paused before the last put while every worker is between its empty "
                  "time-out and its flag read (4-leaf filtered TOAST pyramid of the design experiment, 16-leaf generic pyramid, one random "
                  "filtered depth-3 pyramid); producer paused before the middle put (flag still down)" % (list(fw),))

    # ---------------- transform
    tdepths = [0, 1, 2, 3, 3] + ([4] if thorough else [])
    n_t = 0
    for depth in tdepths:
        for w in (W3 if (thorough or depth == 3) else (par(),)):
            allp = Q.all_positions(depth)
            frac = 1.0 if depth <= 1 else (0.5 if depth <= 3 else 0.15)
            present = [list(p) for p in allp if rng.random() < frac] or [list(allp[-1])]
            cases.append({"stage": "transform", "depth": depth, "present": present, "parallel": w, "delay": dl(3.0 if depth < 4 else 0.5),
                          "schedule": "os", "sched": None})
            n_t += 1
    for w in fw:
        allp = Q.all_positions(2)
        base = {"stage": "transform", "depth": 2, "present": [list(p) for p in allp if p[0] == 2 or p[0] == 0], "parallel": w, "delay": None,
                "schedule": "os", "sched": None}
        cases.append(forced(base, "last", len(allp)))
        cases.append(forced(base, "mid", len(allp)))
        if thorough or w == 2:
            cases.append(forced(base, "slow_last", len(allp)))
    bounds.append("transform (u8_to_rgb): depth %s, workers {2,3,16} (queue capacity 16*workers; exceeded at depth 3 with 85 items for 2 and 3 "
                  "workers%s), about half of the tiles present; forced last-put and mid-put schedules at depth 2; slow-flush schedule "
                  "(last item takes 3 s to serialise) at depth 2" % (
                      sorted(set(tdepths)), ", at depth 4 with 341 items for all" if thorough else ""))

    # ---------------- multi_tan
    colls = [
        [[0, 0, 200, 300]],
        [[0, 0, 200, 300], [150, 40, 260, 370]],
        [[0, 0, 300, 300], [0, 300, 300, 220], [300, 0, 120, 520]],
        [[10, 20, 100, 100], [10, 400, 100, 100], [300, 20, 100, 100], [300, 400, 100, 100]],
        [[0, 0, 260, 260], [0, 250, 260, 270], [250, 0, 170, 260], [250, 250, 170, 270], [100, 100, 200, 200]],
        [[0, 0, 150, 180], [0, 170, 150, 180], [0, 340, 150, 180], [140, 0, 280, 180], [140, 170, 280, 180], [140, 340, 280, 180]],
    ]
    if thorough:
        for _ in range(10):
            n = rng.randint(1, 6)
            pcs = []
            for _i in range(n):
                h, w = rng.randint(40, 300), rng.randint(40, 300)
                pcs.append([rng.randint(0, 420 - h), rng.randint(0, 520 - w), h, w])
            colls.append(pcs)
    n_mt = 0
    for i, pcs in enumerate(colls):
        for w in (W3 if thorough else (W3[i % 3],)):
            cases.append({"stage": "multi_tan", "pieces": pcs, "mosaic": [420, 520], "seed": rng.randrange(10 ** 6), "bottom_up": bool((i + w) % 2),
                          "parallel": w, "delay": dl(5.0), "schedule": "os", "sched": None})
            n_mt += 1
    for w in fw:
        base = {"stage": "multi_tan", "pieces": colls[3], "mosaic": [420, 520], "seed": 5, "bottom_up": False, "parallel": w, "delay": None,
                "schedule": "os", "sched": None}
        cases.append(forced(base, "last", len(colls[3])))
    cases.append(forced({"stage": "multi_tan", "pieces": colls[5], "mosaic": [420, 520], "seed": 6, "bottom_up": True, "parallel": 2, "delay": None,
                         "schedule": "os", "sched": None}, "mid", 6))
    # slow-flush schedules: an input image that is slow to serialise (a very large segment) as the last / a middle item.
    # colls[3]: 40 kB payloads (fit into the pipe buffer), colls[1]: 385 kB payload (does not)
    for w in fw:
        base = {"stage": "multi_tan", "pieces": colls[3], "mosaic": [420, 520], "seed": 7, "bottom_up": bool(w % 2), "parallel": w, "delay": None,
                "schedule": "os", "sched": None}
        cases.append(forced(base, "slow_last", len(colls[3])))
    cases.append(forced({"stage": "multi_tan", "pieces": colls[1], "mosaic": [420, 520], "seed": 8, "bottom_up": False, "parallel": 2, "delay": None,
                         "schedule": "os", "sched": None}, "slow_last", 2))
    cases.append(forced({"stage": "multi_tan", "pieces": colls[5], "mosaic": [420, 520], "seed": 9, "bottom_up": True, "parallel": 16 if thorough else 3,
                         "delay": None, "schedule": "os", "sched": None}, "slow_mid", 6))
    bounds.append("multi_tan slow-flush schedules, workers %s: the queue's feeder thread needs 3 s (two receive time-outs + 1 s) to serialise the "
                  "last input image (4 inputs of 40 kB, 2 inputs of up to 385 kB) or a middle one (6 inputs): stand-in for a very large "
                  "segment; result compared with the serial run and with the mosaic of the inputs" % (list(fw),))
    bounds.append("multi_tan: %d collections of 1..6 FITS inputs cut from one 420x520 mosaic (overlapping, abutting, disjoint), top-down and "
                  "bottom-up storage, workers {2,3,16}; forced last-put (4 inputs) and mid-put (6 inputs) schedules" % len(colls))

    # ---------------- multi_wcs (workers poll with a 10 s time-out: every run lasts >= 10 s)
    wc = [[[0, 0, 40, 50], [1, 1, 50, 40]], [[0, 0, 40, 50], [1, 0, 44, 44], [0, 1, 50, 40]]]
    for i, pcs in enumerate(wc if thorough else wc[1:]):
        for w in ((2, 3) if thorough else (2,)):
            long_cases.append({"stage": "multi_wcs", "pieces": pcs, "seed": rng.randrange(10 ** 6), "parallel": w, "delay": None, "schedule": "os", "sched": None})
    base = {"stage": "multi_wcs", "pieces": wc[0], "seed": 11, "parallel": 2, "delay": None, "schedule": "os", "sched": None}
    long_cases.append(forced(base, "last", 2, get_timeout=10.0))
    if thorough:
        long_cases.append(forced(dict(base, seed=12), "slow_last", 2, get_timeout=10.0))
        long_cases.append(forced(dict(base, pieces=wc[1], parallel=3, seed=13), "slow_last", 3, get_timeout=10.0))
        long_cases.append(forced(dict(base, pieces=wc[1], parallel=3), "last", 3, get_timeout=10.0))
        long_cases.append(forced(dict(base, pieces=wc[1]), "mid", 3, get_timeout=10.0))
    bounds.append("multi_wcs: collections of 2-3 small FITS inputs with separate tangent points (disjoint footprints), reproject_interp, "
                  "workers %s; forced last-put schedule (10 s worker time-out)%s" % (
                      "{2,3}" if thorough else "{2}", "; slow-flush schedule (last input takes 21 s to serialise)" if thorough else
                      "; NO slow-flush schedule in this tier (a run lasts > 40 s)"))
    # ---------------- slow consumers: the bounded queue stays full for longer than any time-out of the hand-off
    def slowc(case, **dkw):
        c = dict(case)
        c["delay"] = dict({"seed": 0, "base_ms": 0.0, "slow": []}, **dkw)
        c["schedule"] = "slow_consumer" if "each_ms" in dkw else "slow_first_item"
        c["alone"] = True
        return c

    full2 = Q.all_positions(2, 1)
    slow = [slowc(_visit_case("g", 2, [], None, 2, None), each_ms=1300.0),
            slowc(_visit_case("f", 2, full2, None, 3, None, "planetary"), each_ms=1300.0),
            slowc(_visit_case("t", 3, [], None, 2, None), first_ms=2500.0)]
    allp3 = Q.all_positions(3)
    slow.append(slowc({"stage": "transform", "depth": 3, "present": [list(p) for p in allp3 if (p[1] + p[2]) % 2 == 0], "parallel": 2,
                       "schedule": "os", "sched": None}, first_ms=2500.0))
    eight = [[10 + 105 * (i // 4), 10 + 125 * (i % 4), 90, 110] for i in range(8)]
    slow.append(slowc({"stage": "multi_tan", "pieces": eight, "mosaic": [420, 520], "seed": 21, "bottom_up": False, "parallel": 2,
                       "schedule": "os", "sched": None}, first_ms=2500.0))
    if thorough:
        slow.append(slowc(_visit_case("t", 3, [], None, 16, None), each_ms=1300.0))
        slow.append(slowc(_visit_case("g", 3, [], (1, 1, 0), 3, None), each_ms=1300.0))
        slow.append(slowc(_visit_case("g", 4, [], None, 16, None), first_ms=2500.0))
        slow.append(slowc({"stage": "transform", "depth": 3, "present": [list(p) for p in allp3 if p[0] == 3], "parallel": 3,
                           "schedule": "os", "sched": None}, first_ms=3500.0))
        slow.append(slowc({"stage": "multi_tan", "pieces": eight + [[220, 10, 150, 400]], "mosaic": [420, 520], "seed": 22, "bottom_up": True,
                           "parallel": 3, "schedule": "os", "sched": None}, each_ms=1300.0))
    cases.extend(slow)
    bounds.append("slow consumers (%d cases): visit_leaves of 16 leaves with 2 and with 3 workers where every callback takes 1.3 s (more items "
                  "than workers + 2*workers queue slots, each slower than the 1 s time-outs of the hand-off: the queue stays full and the "
                  "producer's put waits > 1 s over and over); 64 leaves / transform of 85 tiles / multi_tan of 8 inputs with 2 workers whose "
                  "first item takes 2.5 s (the queue fills behind them)%s" % (
                      len(slow), "; 64 leaves x 1.3 s with 16 workers, 16-leaf sub-pyramid with 3, 256 leaves with 16 slow-starting workers, "
                      "transform with 3, multi_tan of 9 inputs x 1.3 s per tile read" if thorough else ""))
    allc = long_cases + cases
    for i, c in enumerate(allc):
        c["id"] = i
    return long_cases, cases, bounds


def _n_items(case):
    st = case["stage"]
    if st == "visit":
        kind, depth, acc, apex, _ = Q.shape_from_witness(case)
        return len(Q.Expect(kind, depth, acc, apex).leaves)
    if st == "transform":
        return len(Q.all_positions(case["depth"]))
    return len(case["pieces"])


def _case_key(c):
    import json
    return json.dumps({k: v for k, v in c.items() if k not in ("id", "_dir", "alone")}, sort_keys=True, default=str)


def run(ctx):
    thorough = ctx.thorough
    watchdog = 120 if thorough else 60
    long_cases, cases, bounds = build_cases(ctx.rng, thorough)
    reported = {}

    def report(viols):
        for obl, w, msg in viols:
            n = reported.get(obl, 0)
            reported[obl] = n + 1
            if n < CAP:
                ctx.violation(obl, w, msg)

    # serial visits in-process (no worker processes): item set + the geometry delivered serially
    sdir = os.path.join(ctx.workdir, "serial")
    os.makedirs(sdir, exist_ok=True)
    serial_geom = {}
    n_serial = 0
    for c in cases:
        if c["stage"] != "visit":
            continue
        key = Q.shape_key(c["kind"], c["depth"], [tuple(p) for p in (c["accept"] or [])], tuple(c["apex"]) if c["apex"] else None, c["coordsys"])
        if key in serial_geom:
            continue
        sc = dict(c, parallel=1, delay=None, schedule="os", sched=None, id="s%d" % c["id"], _dir=sdir)
        res = _run_visit(sc)
        n_serial += 1
        serial_geom[key] = {p: evs[0][6] for p, evs in _ms(res["events"], "S").items()}
        ctx.case(("serial-visit",) + key, nontrivial=_n_items(c) > 0)
        report(evaluate(sc, {"status": "done", "result": res}, watchdog))
    # object history, serial (in-process): one object, a program of operations, every leaf visit checked
    hrng = H.derived_rng(ctx.seed, "c03")
    hcases, hbound = H.serial_cases(hrng, "visit", thorough, 1500 if thorough else 150)
    for hc in hcases:
        ctx.case(H.case_key(hc), nontrivial=H.nontrivial(hc))
        report(H.findings(hc, H.run_history(hc), HIST))
    bounds.append(hbound)
    hpar, hpbound = H.parallel_cases(hrng, "visit", thorough, 120 if thorough else 20, workers=(2, 3))
    bounds.append(hpbound)
    # serial transform cases go through the isolated path together with the rest (cheap)
    extra_serial = []
    for c in cases:
        if c["stage"] == "transform" and c.get("schedule") == "os" and c["parallel"] == 2:
            extra_serial.append(dict(c, parallel=1, delay=None))
    base_id = len(long_cases) + len(cases)
    for i, c in enumerate(extra_serial):
        c["id"] = base_id + i
    for i, hc in enumerate(hpar):
        hc["id"] = base_id + len(extra_serial) + i
    ctx.bound("serial runs: visit_leaves on each of the %d distinct shapes, u8_to_rgb on %d pyramids; every multi_tan / multi_wcs case runs "
              "its own serial reference first" % (n_serial, len(extra_serial)))

    # batches: long multi_wcs cases alone and first, then the rest
    short = cases + extra_serial
    bs = 8
    batches = [[dict(c)] for c in long_cases]
    alone = [c for c in short if c.get("alone")]          # slow-consumer cases: seconds of sleeping each, one interpreter per case
    short_rest = [c for c in short if not c.get("alone")]
    batches += [[dict(c)] for c in alone]
    heavy = [c for c in short_rest if c["stage"] == "multi_tan" or c.get("sched")]
    light = [c for c in short_rest if not (c["stage"] == "multi_tan" or c.get("sched"))]
    batches += [[dict(c) for c in heavy[i:i + 3]] for i in range(0, len(heavy), 3)]
    batches += [[dict(c) for c in light[i:i + bs]] for i in range(0, len(light), bs)]
    batches += [[dict(c) for c in hpar[i:i + 2]] for i in range(0, len(hpar), 2)]
    results = B.dispatch("rt.c03", "stage_case", None, os.path.join(ctx.workdir, "par"), watchdog, batch_size=bs, max_workers=24,
                         max_timeouts=CAP, est_case_secs=6.0, batches=batches)
    skipped = 0
    sched_calls = 0
    n_forced = 0
    for c in long_cases + short:
        o = results.get(c["id"], {"status": "skipped"})
        if o["status"] == "skipped":
            skipped += 1
            continue
        ctx.case(_case_key(c), nontrivial=_n_items(c) > 0)
        sg = None
        if c["stage"] == "visit":
            key = Q.shape_key(c["kind"], c["depth"], [tuple(p) for p in (c["accept"] or [])], tuple(c["apex"]) if c["apex"] else None, c["coordsys"])
            sg = serial_geom.get(key)
        report(evaluate(c, o, watchdog, sg))
        if c.get("sched"):
            n_forced += 1
            if o["status"] == "done":
                sched_calls += o["result"].get("sched_calls") or 0
        if o["status"] == "done" and c["parallel"] > 1 and _n_items(c) > 3:
            r = o["result"]
            ctx.sample({"stage": c["stage"], "parallel": c["parallel"], "schedule": c.get("schedule"), "items": _n_items(c),
                        "events": len(r["events"]), "worker_processes_seen": len(set(e[5] for e in r["events"])), "seconds": round(r["t1"] - r["t0"], 2)})
    undecided = 0
    for hc in hpar:
        o = results.get(hc["id"], {"status": "skipped"})
        if o["status"] != "done":
            undecided += 1
            continue
        ctx.case(H.case_key(hc), nontrivial=H.nontrivial(hc))
        report(H.findings(hc, o["result"], HIST))
    if undecided:
        ctx.note("%d object-history programs with worker processes did not finish inside the watchdog (or were not run): undecided" % undecided)
    if n_forced:
        ctx.monitor("forced_schedule_wrapped_queue_put_and_is_set_calls", sched_calls)
    for b in bounds:
        ctx.bound(b)
    ctx.bound("watchdog %d s per run" % watchdog)
    if skipped:
        ctx.note("%d cases not run: %d runs had already hit the watchdog" % (skipped, CAP))
    for obl, n in sorted(reported.items()):
        if n > CAP:
            ctx.note("%s: %d failing cases met, first %d reported" % (obl, n, CAP))
    ctx.assume("npy, FITS and JPEG codecs round-trip the harness's tiles (JPEG of a constant tile within 3 grey levels)")
    ctx.assume("CLOCK_MONOTONIC is shared by all processes of the machine")
    ctx.assume("forced schedules are ordinary interleavings: a paused producer and a worker descheduled between its queue time-out and its flag read")


def replay(obligation, witness):
    import shutil
    import tempfile
    if witness.get("program") is not None:
        return H.replay(obligation, witness, HIST)
    case = case_from_witness(witness)
    work = tempfile.mkdtemp(prefix="c03_replay_")
    try:
        watchdog = int(witness.get("watchdog_s") or 90)
        tries = 1 if case.get("sched") else 3
        for attempt in range(tries):
            case["id"] = attempt
            res = B.dispatch("rt.c03", "stage_case", [dict(case)], os.path.join(work, "r%d" % attempt), watchdog, batch_size=1, max_workers=1)
            sg = None
            if case["stage"] == "visit" and case["parallel"] > 1:
                sc = dict(case, parallel=1, delay=None, schedule="os", sched=None, id="s", _dir=work)
                sres = _run_visit(sc)
                sg = {p: evs[0][6] for p, evs in _ms(sres["events"], "S").items()}
            hits = [m for o, _w, m in evaluate(case, res[attempt], watchdog, sg) if o == obligation]
            if hits:
                return False, hits[0]
        return True, "obligation %s held in %d run(s) of this case" % (obligation, tries)
    finally:
        shutil.rmtree(work, ignore_errors=True)
