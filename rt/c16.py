"""C16 -- bounded run-time driver: a parity flip reverses the rows and moves no pixel on the sky.

Drives the real ``toasty.image.Image`` / ``ImageDescription`` (``flip_parity``,
``ensure_negative_parity``, ``get_parity_sign``) over generated linear celestial WCS and
compares with an oracle taken from the property statement:

  world(x, y) before the flip  ==  world(x, H-1-y) after it        (0-based pixel indices)

The "before" side is computed twice, independently of toasty: (a) astropy ``wcs_pix2world`` on
the caller's *original* WCS object, (b) for TAN a gnomonic de-projection + spherical rotation
written here from the FITS WCS paper II formulas, fed with the generating parameters
(CD, CRPIX, CRVAL) -- never with anything toasty produced.  The "after" side is astropy
``wcs_pix2world`` on the WCS object the flipped toasty object carries.

Obligations (stable names) and their witness keys
-------------------------------------------------
All witnesses carry the complete case (enough for ``replay``):
  ``H, W, form ('cd'|'pc'|'crota'), ctype, crval, crpix, cd, cdelt, pc, crota, mode, dataseed,
  start_parity`` (+1/-1 according to the generator), plus ``kind``
  ('image_array'|'image_pil'|'description') and ``op`` ('flip'|'ensure'|'ensure_twice').

* ``rt/get_parity_sign/matches_handedness``   extra: ``reported, handedness``
      reported sign == -sign(n . (e_x x e_y)) of the sky directions of +x and +y at the
      reference pixel (FITS-like, "bottoms-up" = +1; JPEG-like = -1, as documented).
* ``rt/flip_parity/sign_negated``             extra: ``before, after``
* ``rt/flip_parity/rows_reversed``            extra: ``first_bad_row``
* ``rt/flip_parity/sky_position_unchanged``   extra: ``pixel [x,y], sep_deg, sep_px, tol_deg, reference ('astropy'|'own_tan')``
* ``rt/flip_parity/raised``                   extra: ``exception``
* ``rt/ensure_negative_parity/yields_minus_one``   extra: ``after``
* ``rt/ensure_negative_parity/idempotent``         extra: ``what``
* ``rt/ensure_negative_parity/sky_position_unchanged``  (same extras as the flip clause; rows
      reversed iff the start parity was +1, identical otherwise)
* ``rt/ensure_negative_parity/rows``               extra: ``what``
* ``rt/ensure_negative_parity/raised``             extra: ``exception``

Tolerance (the statement says "unchanged"; toasty round-trips the WCS through a FITS header
whose floats astropy prints with 14 significant digits, which is a property of the trusted
codec, not of the flip): great-circle separation <= 1e-4 * (smallest singular value of CD, i.e.
1e-4 pixel) + 2e-10 deg.  An off-by-one reflection is >= 1 pixel, a half-pixel convention error
0.5 pixel, a sign error in one CD element is of the order of the image size.

Bounds
------
quick   : every size H,W in 1..5 x both parities x 6 orientations (0, 90, 180, 270, 37, 211.3 deg;
          axis-aligned ones exercise the "PC card omitted from the header" branch) with all
          pixels + 4000 seeded random WCS with H,W <= 64 (all pixels).
thorough: sizes 1..8 exhaustive in the same way + 30000 random WCS with H,W <= 400
          (all pixels if H*W <= 4096, else corners, edges mid-points and 1500 random pixels).
Random WCS: rotation uniform, pixel scale log-uniform 1e-5..0.5 deg/px, anisotropy 0.3..3,
shear -0.8..0.8, either parity, CRPIX inside / outside by up to two image sizes / up to 1e5 px
away, CRVAL anywhere incl. RA 0/360 seam and |Dec| up to 89.999, three ways of stating the
matrix (CD, PC+CDELT, CROTA2+CDELT), projections TAN (60 %), SIN, ARC, STG, ZEA, CAR with the
field radius kept <= 50 deg (TAN: plane radius <= 500 deg) so that no pixel is outside the
projection's domain.  Image kinds: array-backed F32/F64/U8/I16/I32/RGB/RGBA, PIL-backed
RGB/RGBA, and data-less ImageDescription.

Trusted: astropy.wcs (wcslib) pix2world and header codec; numpy.
Not covered: WCS with distortion terms (not "linear"), 3-D WCS, non-degree CUNIT.
"""
import math
import warnings

import numpy as np

OBL_SIGN = "rt/get_parity_sign/matches_handedness"
OBL_NEG = "rt/flip_parity/sign_negated"
OBL_ROWS = "rt/flip_parity/rows_reversed"
OBL_SKY = "rt/flip_parity/sky_position_unchanged"
OBL_RAISE = "rt/flip_parity/raised"
OBL_ENS_M1 = "rt/ensure_negative_parity/yields_minus_one"
OBL_ENS_IDEM = "rt/ensure_negative_parity/idempotent"
OBL_ENS_SKY = "rt/ensure_negative_parity/sky_position_unchanged"
OBL_ENS_ROWS = "rt/ensure_negative_parity/rows"
OBL_ENS_RAISE = "rt/ensure_negative_parity/raised"

D2R = math.pi / 180.0
MODES = ["F32", "F64", "U8", "I16", "I32", "RGB", "RGBA"]
PROJS = ["SIN", "ARC", "STG", "ZEA", "CAR"]


# ----------------------------------------------------------------------------------------
# independent sky computation (FITS WCS paper II, zenithal TAN, LONPOLE = 180)

def own_tan_unitvec(cd, crpix, crval, px0, py0):
    """Unit vectors of 0-based pixel positions for RA---TAN/DEC--TAN with matrix ``cd``."""
    cd = np.asarray(cd, dtype=float)
    u = px0 + 1.0 - crpix[0]
    v = py0 + 1.0 - crpix[1]
    x = (cd[0, 0] * u + cd[0, 1] * v) * D2R
    y = (cd[1, 0] * u + cd[1, 1] * v) * D2R
    r = np.hypot(x, y)
    phi = np.arctan2(x, -y)
    theta = np.arctan2(1.0, r)
    a0, d0 = crval[0] * D2R, crval[1] * D2R
    dphi = phi - math.pi
    st, ct = np.sin(theta), np.cos(theta)
    sd0, cd0 = math.sin(d0), math.cos(d0)
    ra = a0 + np.arctan2(-ct * np.sin(dphi), st * cd0 - ct * sd0 * np.cos(dphi))
    sdec = st * sd0 + ct * cd0 * np.cos(dphi)
    sdec = np.clip(sdec, -1.0, 1.0)
    # use a formula for dec that is well conditioned near the poles
    cdec_x = st * cd0 - ct * sd0 * np.cos(dphi)
    cdec_y = -ct * np.sin(dphi)
    cdec = np.hypot(cdec_x, cdec_y)
    dec = np.arctan2(sdec, cdec)
    return np.stack([np.cos(dec) * np.cos(ra), np.cos(dec) * np.sin(ra), np.sin(dec)], axis=-1)


def radec_unitvec(world):
    ra = world[:, 0] * D2R
    dec = world[:, 1] * D2R
    return np.stack([np.cos(dec) * np.cos(ra), np.cos(dec) * np.sin(ra), np.sin(dec)], axis=-1)


def sep_deg(v1, v2):
    d = np.linalg.norm(v1 - v2, axis=-1)
    return 2.0 * np.arcsin(np.clip(d / 2.0, 0.0, 1.0)) / D2R


# ----------------------------------------------------------------------------------------
# case construction

def effective_cd(case):
    if case["form"] == "cd":
        return np.array(case["cd"], dtype=float)
    if case["form"] == "pc":
        return np.diag(case["cdelt"]).dot(np.array(case["pc"], dtype=float))
    rho = case["crota"] * D2R
    c1, c2 = case["cdelt"]
    return np.array([[c1 * math.cos(rho), -c2 * math.sin(rho)], [c1 * math.sin(rho), c2 * math.cos(rho)]])


def build_wcs(case):
    from astropy.wcs import WCS
    p = case["ctype"]
    if case["form"] == "crota":
        from astropy.io import fits
        h = fits.Header()
        h["NAXIS"] = 2
        h["CTYPE1"] = "RA---" + p
        h["CTYPE2"] = "DEC--" + p
        h["CRVAL1"], h["CRVAL2"] = case["crval"]
        h["CRPIX1"], h["CRPIX2"] = case["crpix"]
        h["CDELT1"], h["CDELT2"] = case["cdelt"]
        h["CROTA2"] = case["crota"]
        return WCS(h)
    w = WCS(naxis=2)
    w.wcs.ctype = ["RA---" + p, "DEC--" + p]
    w.wcs.crval = list(case["crval"])
    w.wcs.crpix = list(case["crpix"])
    if case["form"] == "cd":
        w.wcs.cd = case["cd"]
    else:
        w.wcs.cdelt = list(case["cdelt"])
        w.wcs.pc = case["pc"]
    w.wcs.set()
    return w


def make_data(case):
    H, W, mode = case["H"], case["W"], case["mode"]
    rs = np.random.RandomState(case["dataseed"] % (2 ** 31))
    if mode in ("RGB", "RGBA"):
        nch = 3 if mode == "RGB" else 4
        a = rs.randint(0, 256, size=(H, W, nch)).astype(np.uint8)
        # make rows distinguishable whatever the random draw
        a[:, 0, 0] = (np.arange(H) * 7 + 3) % 256
        a[:, 0, 1] = (np.arange(H) // 256) % 256
        return a
    dt = {"F32": np.float32, "F64": np.float64, "U8": np.uint8, "I16": np.int16, "I32": np.int32}[mode]
    if mode == "U8":
        a = rs.randint(0, 256, size=(H, W)).astype(dt)
        a[:, 0] = (np.arange(H) * 7 + 3) % 256
        return a
    if mode in ("I16", "I32"):
        a = rs.randint(-30000, 30000, size=(H, W)).astype(dt)
        a[:, 0] = np.arange(H) - 7
        return a
    a = rs.uniform(-1, 1, size=(H, W)).astype(dt)
    a[:, 0] = np.arange(H) + 0.25
    return a


def pixel_sample(case):
    H, W = case["H"], case["W"]
    if H * W <= 4096:
        xs, ys = np.meshgrid(np.arange(W), np.arange(H))
        return xs.ravel().astype(float), ys.ravel().astype(float)
    rs = np.random.RandomState((case["dataseed"] + 17) % (2 ** 31))
    xs = list(rs.randint(0, W, 1500)) + [0, W - 1, 0, W - 1, W // 2, 0, W - 1, W // 2, W // 2]
    ys = list(rs.randint(0, H, 1500)) + [0, 0, H - 1, H - 1, 0, H // 2, H // 2, H - 1, H // 2]
    return np.array(xs, dtype=float), np.array(ys, dtype=float)


def handedness(w, case):
    """-sign(n . (e_x x e_y)) from the sky directions of +x and +y at the reference pixel."""
    cx, cy = case["crpix"][0] - 1.0, case["crpix"][1] - 1.0
    pts = np.array([[cx, cy], [cx + 0.5, cy], [cx, cy + 0.5]])
    v = radec_unitvec(w.wcs_pix2world(pts, 0))
    ex, ey = v[1] - v[0], v[2] - v[0]
    t = float(np.dot(v[0], np.cross(ex, ey)))
    return 1 if t < 0 else -1


# ----------------------------------------------------------------------------------------
# the check of one case (runs in a worker process, also used by replay)

def check_case(case):
    """Return {'fails': [(obligation, extra, message)], 'pixels': n, 'notes': [...]}"""
    warnings.simplefilter("ignore")
    from toasty.image import Image, ImageDescription
    fails, notes = [], []
    worst = [0.0]
    H, W = case["H"], case["W"]
    cd = effective_cd(case)
    smin = float(np.linalg.svd(cd, compute_uv=False).min())
    tol = 1e-4 * smin + 2e-10
    w0 = build_wcs(case)
    psm = w0.pixel_scale_matrix
    if not np.allclose(psm, cd, rtol=1e-9, atol=1e-15 + 1e-12 * np.abs(cd).max()):
        return {"fails": [], "pixels": 0, "notes": ["checker: astropy matrix differs from the generator's for form %s" % case["form"]],
                "skipped": True}
    xs, ys = pixel_sample(case)
    ref_astropy = w0.wcs_pix2world(np.c_[xs, ys], 0)
    if not np.all(np.isfinite(ref_astropy)):
        return {"fails": [], "pixels": 0, "notes": ["case has pixels outside the projection's domain"], "skipped": True}
    refs = [("astropy", radec_unitvec(ref_astropy))]
    if case["ctype"] == "TAN":
        own = own_tan_unitvec(cd, case["crpix"], case["crval"], xs, ys)
        # the two references must agree (conformance of my formulas with the trusted library)
        s = sep_deg(own, refs[0][1]).max()
        if s > tol:
            return {"fails": [], "pixels": 0, "skipped": True,
                    "notes": ["checker: own TAN and astropy disagree by %.3g deg on the ORIGINAL wcs" % s]}
        refs.append(("own_tan", own))
    hand = handedness(w0, case)
    data = make_data(case)

    def fresh(kind):
        w = build_wcs(case)
        if kind == "image_array":
            return Image.from_array(data.copy(), wcs=w)
        if kind == "image_pil":
            from PIL import Image as PILImage
            return Image.from_pil(PILImage.fromarray(data.copy()), wcs=w)
        shape = data.shape
        return ImageDescription(shape=shape, wcs=w)

    def get_wcs(obj):
        return obj.wcs

    def sky_check(obj, reflected, obl, kind, op):
        yy = (H - 1 - ys) if reflected else ys
        try:
            world = get_wcs(obj).wcs_pix2world(np.c_[xs, yy], 0)
        except Exception as e:  # pragma: no cover
            fails.append((obl, {"kind": kind, "op": op, "exception": repr(e)}, "pix2world on the new WCS raised %r" % (e,)))
            return
        if not np.all(np.isfinite(world)):
            i = int(np.argmin(np.all(np.isfinite(world), axis=1)))
            fails.append((obl, {"kind": kind, "op": op, "pixel": [xs[i], ys[i]], "sep_deg": None, "sep_px": None,
                                "tol_deg": tol, "reference": "astropy"},
                          "pixel (%g,%g) has no sky position after %s" % (xs[i], ys[i], op)))
            return
        v = radec_unitvec(world)
        for name, ref in refs:
            s = sep_deg(v, ref)
            i = int(np.argmax(s))
            worst[0] = max(worst[0], float(s[i]) / tol)
            if not (s[i] <= tol):
                fails.append((obl, {"kind": kind, "op": op, "pixel": [xs[i], ys[i]], "sep_deg": float(s[i]),
                                    "sep_px": float(s[i] / smin), "tol_deg": tol, "reference": name},
                              "pixel (%g,%g) moved by %.3g deg = %.3g px on the sky (reference %s): world before != "
                              "world of (x, %s) after %s" % (xs[i], ys[i], s[i], s[i] / smin, name,
                                                            "H-1-y" if reflected else "y", op)))
                return

    kinds = ["image_array", "description"]
    if case["mode"] in ("RGB", "RGBA"):
        kinds.append("image_pil")
    for kind in kinds:
        has_data = kind != "description"
        # ---- reported sign
        try:
            obj = fresh(kind)
            p0 = obj.get_parity_sign()
        except Exception as e:
            fails.append((OBL_RAISE, {"kind": kind, "op": "get_parity_sign", "exception": repr(e)}, "get_parity_sign raised %r" % (e,)))
            continue
        if p0 != hand:
            fails.append((OBL_SIGN, {"kind": kind, "op": "get_parity_sign", "reported": p0, "handedness": hand},
                          "get_parity_sign() = %r but the sky handedness of (+x,+y) says %r" % (p0, hand)))
        # ---- flip
        try:
            obj.flip_parity()
            p1 = obj.get_parity_sign()
        except Exception as e:
            fails.append((OBL_RAISE, {"kind": kind, "op": "flip", "exception": repr(e)}, "flip_parity raised %r" % (e,)))
        else:
            if p1 != -p0 or p1 not in (1, -1):
                fails.append((OBL_NEG, {"kind": kind, "op": "flip", "before": p0, "after": p1},
                              "parity %r before the flip, %r after" % (p0, p1)))
            if has_data:
                arr = np.asarray(obj.asarray())
                exp = data[::-1]
                if arr.shape != exp.shape or not np.array_equal(arr, exp):
                    bad = None
                    if arr.shape == exp.shape:
                        rows = np.where(np.any((arr != exp).reshape(H, -1), axis=1))[0]
                        bad = int(rows[0]) if len(rows) else None
                    fails.append((OBL_ROWS, {"kind": kind, "op": "flip", "first_bad_row": bad},
                                  "asarray() after the flip is not the row-reversed original (first bad row %r, shape %r)" % (bad, arr.shape)))
                if kind == "image_pil":
                    try:
                        pa = np.asarray(obj.aspil())
                        if not np.array_equal(pa, exp):
                            notes.append("observation (not judged): a PIL-backed Image keeps returning the un-flipped picture "
                                         "from aspil() after flip_parity(), while asarray() is flipped")
                    except Exception:
                        pass
            elif tuple(obj.shape) != tuple(data.shape):
                fails.append((OBL_ROWS, {"kind": kind, "op": "flip", "first_bad_row": None}, "description changed its shape"))
            sky_check(obj, True, OBL_SKY, kind, "flip")
            # flipping twice restores the original mapping (consequence of the statement)
            try:
                obj.flip_parity()
                sky_check(obj, False, OBL_SKY, kind, "flip_twice")
                if has_data and not np.array_equal(np.asarray(obj.asarray()), data):
                    fails.append((OBL_ROWS, {"kind": kind, "op": "flip_twice", "first_bad_row": None},
                                  "two flips do not restore the rows"))
            except Exception as e:
                fails.append((OBL_RAISE, {"kind": kind, "op": "flip_twice", "exception": repr(e)}, "second flip_parity raised %r" % (e,)))
        # ---- ensure_negative_parity
        try:
            obj = fresh(kind)
            obj.ensure_negative_parity()
            q1 = obj.get_parity_sign()
        except Exception as e:
            fails.append((OBL_ENS_RAISE, {"kind": kind, "op": "ensure", "exception": repr(e)}, "ensure_negative_parity raised %r" % (e,)))
            continue
        if q1 != -1:
            fails.append((OBL_ENS_M1, {"kind": kind, "op": "ensure", "after": q1}, "parity after ensure_negative_parity is %r" % (q1,)))
        reflected = hand == 1   # a FITS-like image must have been flipped, a JPEG-like one left alone
        sky_check(obj, reflected, OBL_ENS_SKY, kind, "ensure")
        if has_data:
            exp = data[::-1] if reflected else data
            if not np.array_equal(np.asarray(obj.asarray()), exp):
                fails.append((OBL_ENS_ROWS, {"kind": kind, "op": "ensure", "what": "rows %s expected" % ("reversed" if reflected else "unchanged")},
                              "after ensure_negative_parity the rows are not %s" % ("reversed" if reflected else "unchanged")))
        w_first = get_wcs(obj).wcs_pix2world(np.c_[xs, ys], 0)
        a_first = np.array(obj.asarray(), copy=True) if has_data else None
        try:
            obj.ensure_negative_parity()
            q2 = obj.get_parity_sign()
        except Exception as e:
            fails.append((OBL_ENS_RAISE, {"kind": kind, "op": "ensure_twice", "exception": repr(e)}, "second ensure_negative_parity raised %r" % (e,)))
            continue
        if q2 != -1:
            fails.append((OBL_ENS_M1, {"kind": kind, "op": "ensure_twice", "after": q2}, "parity after the second ensure is %r" % (q2,)))
        w_second = get_wcs(obj).wcs_pix2world(np.c_[xs, ys], 0)
        if not np.array_equal(w_first, w_second):
            fails.append((OBL_ENS_IDEM, {"kind": kind, "op": "ensure_twice", "what": "wcs"}, "second ensure_negative_parity changed the WCS"))
        if has_data and not np.array_equal(np.asarray(obj.asarray()), a_first):
            fails.append((OBL_ENS_IDEM, {"kind": kind, "op": "ensure_twice", "what": "rows"}, "second ensure_negative_parity changed the rows"))
    return {"fails": fails, "pixels": int(len(xs)), "notes": notes, "skipped": False, "worst": worst[0]}


def _check_many(cases):
    out = []
    for c in cases:
        try:
            out.append(check_case(c))
        except Exception as e:  # a checker problem, reported as such by the parent
            import traceback
            out.append({"error": traceback.format_exc()[-1500:], "fails": [], "pixels": 0, "notes": [], "skipped": True})
    return out


# ----------------------------------------------------------------------------------------
# domain

def _rot(deg):
    t = deg * D2R
    c, s = math.cos(t), math.sin(t)
    if deg % 90 == 0:   # exact, so that the header omits the default PC cards
        c, s = [(1, 0), (0, 1), (-1, 0), (0, -1)][int(deg // 90) % 4]
    return np.array([[c, -s], [s, c]], dtype=float)


def small_cases(maxsize, rng):
    cases = []
    for H in range(1, maxsize + 1):
        for W in range(1, maxsize + 1):
            for parity in (1, -1):
                for k, deg in enumerate((0, 90, 180, 270, 37, 211.3)):
                    s = 0.01
                    base = np.array([[-s, 0.0], [0.0, s if parity == 1 else -s]])   # det<0 <=> +1
                    cd = _rot(deg).dot(base)
                    form = ("cd", "pc")[(H + W + k) % 2]
                    c = {"H": H, "W": W, "form": form, "ctype": "TAN",
                         "crval": [(40.0 * k + 3 * W) % 360, -75 + 30.0 * (k % 6)],
                         "crpix": [(W + 1) / 2.0 if k % 2 == 0 else 1.0 - k, (H + 1) / 2.0 if k % 3 else H + 2.5],
                         "cd": cd.tolist(), "cdelt": None, "pc": None, "crota": None,
                         "mode": MODES[(H * 7 + W + k) % len(MODES)], "dataseed": rng.randrange(2 ** 31),
                         "start_parity": parity}
                    if form == "pc":
                        c["cdelt"] = [s, s]
                        c["pc"] = (cd / s).tolist()
                        c["cd"] = None
                    cases.append(c)
    return cases


def random_case(rng, maxdim):
    H = rng.choice([1, 2, 3]) if rng.random() < 0.08 else rng.randint(1, maxdim)
    W = rng.choice([1, 2, 3]) if rng.random() < 0.08 else rng.randint(1, maxdim)
    ctype = "TAN" if rng.random() < 0.6 else rng.choice(PROJS)
    parity = rng.choice([1, -1])
    scale = 10 ** rng.uniform(-5, math.log10(0.5))
    anis = 1.0 if rng.random() < 0.4 else 10 ** rng.uniform(math.log10(0.3), math.log10(3))
    form = rng.choice(["cd", "pc", "crota"])
    rot = rng.choice([0, 90, 180, 270]) if rng.random() < 0.1 else rng.uniform(0, 360)
    # crpix
    u = rng.random()
    if u < 0.45:
        crpix = [rng.uniform(0.5, W + 0.5), rng.uniform(0.5, H + 0.5)]
    elif u < 0.8:
        crpix = [rng.uniform(-2 * W, 3 * W), rng.uniform(-2 * H, 3 * H)]
    else:
        far = 10 ** rng.uniform(2, 5)
        crpix = [rng.choice([-1, 1]) * far * rng.random(), rng.choice([-1, 1]) * far * rng.random()]
    if rng.random() < 0.15:
        crpix = [float(round(crpix[0])), float(round(crpix[1]))]
    ra = rng.choice([0.0, 359.99999, 180.0, rng.uniform(0, 360), rng.uniform(0, 360)])
    dec = rng.choice([0.0, 89.999, -89.999, rng.uniform(-89.9, 89.9), rng.uniform(-89.9, 89.9), rng.uniform(-60, 60)])
    c = {"H": H, "W": W, "form": form, "ctype": ctype, "crval": [ra, dec], "crpix": crpix,
         "cd": None, "cdelt": None, "pc": None, "crota": None,
         "mode": rng.choice(MODES), "dataseed": rng.randrange(2 ** 31), "start_parity": parity}
    sx = -scale
    sy = scale * anis * (1 if parity == 1 else -1)   # det(diag(sx,sy)) < 0  <=>  parity +1
    if form == "crota":
        c["cdelt"] = [sx, sy]
        c["crota"] = rot
    else:
        shear = 0.0 if rng.random() < 0.5 else rng.uniform(-0.8, 0.8)
        m = _rot(rot).dot(np.array([[1.0, shear], [0.0, 1.0]])).dot(np.diag([sx, sy]))
        if form == "cd":
            c["cd"] = m.tolist()
        else:
            d1 = scale * rng.uniform(0.5, 2) * rng.choice([-1, 1])
            d2 = scale * rng.uniform(0.5, 2) * rng.choice([-1, 1])
            c["cdelt"] = [d1, d2]
            c["pc"] = np.diag([1 / d1, 1 / d2]).dot(m).tolist()
    # keep every pixel inside the projection's domain: shrink the matrix if the field is too wide
    cd = effective_cd(c)
    corners = np.array([[1 - crpix[0], 1 - crpix[1]], [W - crpix[0], 1 - crpix[1]], [1 - crpix[0], H - crpix[1]], [W - crpix[0], H - crpix[1]]])
    rmax = float(np.max(np.hypot(*(cd.dot(corners.T)))))
    limit = 500.0 if ctype == "TAN" else 50.0
    if rmax > limit:
        f = limit / rmax * rng.uniform(0.05, 1.0)
        for key in ("cd", "cdelt"):
            if c[key] is not None:
                c[key] = (np.array(c[key]) * f).tolist()
    return c


def _witness(case, extra):
    w = dict(case)
    w.update(extra)
    return w


def run(ctx):
    from concurrent.futures import ProcessPoolExecutor
    import multiprocessing as mp
    thorough = ctx.thorough
    small_max = 8 if thorough else 5
    n_random = 30000 if thorough else 4000
    maxdim = 400 if thorough else 64
    cases = small_cases(small_max, ctx.rng)
    n_small = len(cases)
    cases += [random_case(ctx.rng, maxdim) for _ in range(n_random)]
    ctx.bound("exhaustive: all sizes H,W in 1..%d x both parities x orientations {0,90,180,270,37,211.3} deg, all pixels (%d cases)" % (small_max, n_small))
    ctx.bound("random: %d seeded linear celestial WCS, H,W <= %d, scale 1e-5..0.5 deg/px, anisotropy 0.3..3, shear |k|<=0.8, "
              "CRPIX inside/outside/up to 1e5 px away, CRVAL incl. RA seam and |Dec|<=89.999, forms CD / PC+CDELT / CROTA2, "
              "projections TAN,SIN,ARC,STG,ZEA,CAR (field radius <= 50 deg; TAN plane radius <= 500 deg)" % (n_random, maxdim))
    ctx.bound("pixels: all if H*W <= 4096 else corners, edge mid-points and 1500 random pixels; objects: array-backed Image "
              "(F32,F64,U8,I16,I32,RGB,RGBA), PIL-backed Image (RGB,RGBA), ImageDescription; ops flip, flip twice, ensure, ensure twice")
    ctx.bound("tolerance: great-circle separation <= 1e-4 pixel (smallest singular value of CD) + 2e-10 deg (14-digit header codec)")
    ctx.assume("astropy.wcs (wcslib) pix2world and FITS header codec are trusted; the TAN reference written in rt/c16.py is "
               "cross-checked against astropy on the caller's original WCS in every TAN case")
    nproc = min(14, max(1, (mp.cpu_count() or 2) - 1))
    chunk = 40
    chunks = [cases[i:i + chunk] for i in range(0, len(cases), chunk)]
    results = []
    with ProcessPoolExecutor(max_workers=nproc, mp_context=mp.get_context("fork")) as ex:
        for res in ex.map(_check_many, chunks):
            results.extend(res)
    reported = {}
    seen_notes = set()
    pixels = 0
    skipped = 0
    worst = 0.0
    for case, res in zip(cases, results):
        if res.get("error"):
            raise RuntimeError("checker error in rt/c16 on case %r:\n%s" % (case, res["error"]))
        for n in res["notes"]:
            if n not in seen_notes:
                seen_notes.add(n)
                ctx.note(n)
        if res.get("skipped"):
            skipped += 1
            ctx.case(("skipped", case["dataseed"]), nontrivial=False)
            continue
        pixels += res["pixels"]
        worst = max(worst, res.get("worst", 0.0))
        key = (case["H"], case["W"], case["form"], case["ctype"], case["mode"], case["start_parity"],
               round(case["crpix"][0], 6), round(case["crpix"][1], 6), case["dataseed"])
        ctx.case(key)
        if case["dataseed"] % 97 == 0:
            ctx.sample({k: case[k] for k in ("H", "W", "form", "ctype", "crval", "crpix", "cd", "cdelt", "pc", "crota", "mode", "start_parity")})
        for obl, extra, msg in res["fails"]:
            n = reported.get(obl, 0)
            if n < 5:
                ctx.violation(obl, _witness(case, extra), msg)
            reported[obl] = n + 1
    ctx.monitor("c16.sky_positions_compared", pixels)
    ctx.note("%d pixel positions compared per object kind and operation; %d cases skipped by the generator's own guards; "
             "largest observed separation = %.3g of the tolerance" % (pixels, skipped, worst))
    for obl, n in reported.items():
        if n > 5:
            ctx.note("%s failed in %d cases (first 5 reported)" % (obl, n))


def replay(obligation, witness):
    case = {k: witness.get(k) for k in ("H", "W", "form", "ctype", "crval", "crpix", "cd", "cdelt", "pc", "crota", "mode",
                                        "dataseed", "start_parity")}
    res = check_case(case)
    if res.get("skipped"):
        return True, "case not evaluated: %s" % "; ".join(res["notes"])
    same = [f for f in res["fails"] if f[0] == obligation]
    if same:
        return False, same[0][2]
    other = [f[0] for f in res["fails"]]
    return True, "obligation holds on this witness" + (" (other obligations fail: %s)" % sorted(set(other)) if other else "")
