"""C17 -- bounded run-time driver: the WTML and the returned description match the files on disk.

Runs the real tiling workflows into scratch directories (always in an isolated interpreter with
a watchdog, several of them fork workers), then reads ``index_rel.wtml`` with
``xml.etree`` and the directory tree with ``os.walk`` and compares:

* ghost log: ``PyramidIO.write_image`` is wrapped from outside (inherited by forked workers;
  one JSON line + one .npy per call, appended to a log directory) so that the checker knows,
  for every tile position, the pixels the workflow last wrote for it ("the tile for that
  position") without asking toasty where it put them;
* template expansion written here from the WTML convention: ``{1}``->level, ``{2}``->x, ``{3}``->y;
* tile files are decoded with PIL / numpy / astropy.io.fits, never with toasty.

Obligations and witness keys
----------------------------
Every witness has ``spec`` (the complete workflow description, replayable) and the summary
keys ``workflow`` ('study_api'|'study_cli'|'allsky_api'|'allsky_cli'|'tile_fits'|'pipeline'),
``scheme`` ('L/Y/YX'|'LXY'), ``format``, ``history_step`` ('fresh'|'reuse'|'override'),
``step_index``, ``mode`` ('TAN'|'TOAST'|null), ``url`` (the template found in the WTML).

* ``rt/wtml/url_addresses_written_tiles``  the file at expand(Url, pos) is missing or does not hold
      the pixels last written for pos.   extra: ``pos [n,x,y], expected_path, problem``
* ``rt/wtml/no_unaddressed_tiles``         a tile file on disk is not expand(Url, pos) of any position
      written (and not masked away).      extra: ``path``
* ``rt/wtml/url_injective``                two positions expand to the same path.  extra: ``pos_a, pos_b, path``
* ``rt/wtml/file_type``                    FileType is not the tiles' extension.   extra: ``file_type, extensions``
* ``rt/wtml/tile_levels``                  TileLevels is not the deepest populated layer. extra: ``tile_levels, deepest_on_disk``
* ``rt/tile_fits/description_matches_wtml`` the (out_dir, Builder) handed back by ``toasty.tile_fits`` disagrees
      with ``index_rel.wtml`` in that out_dir (every attribute, text and child element of the ImageSet and of the
      Place as serialised by wwt_data_formats), or the call raised on a directory left by an identical call.
      extra: ``differs`` (attribute -> [returned, wtml]), ``history`` (all steps), ``override``

Workflows that raise on their *first* (fresh) run are not judged here (nothing was emitted;
e.g. all-sky depth 0 belongs to C06): they are counted as trivial cases and listed in a note; a
monitor per workflow family makes a family that was never evaluated a checker error.

Bounds
------
quick   : study via Builder API: schemes {L/Y/YX, LXY} x formats {png, jpg, npy, fits} x image sizes
          {(200,120) level 0, (300,520) level 2, (700,300) level 2, (1100,530) level 3}, tiled + cascaded;
          study via the CLI (tile-study + cascade): 2 sizes; all-sky via Builder API: 2 schemes x
          {png, fits, jpg} x depth {0,1,2}; all-sky via the CLI (tile-allsky + cascade) depth 1 and 2;
          pipeline process_todos with a stub image source (LXY/png): 2 sizes;
          tile_fits: TAN one file, TAN two files, TOAST; image extents on both sides of the one-tile boundary
          (TAN 200x150, 256x256, two-file 200x130 mosaic: single tile 0/0/0_0; TAN 300x260, two-file 520x330, 700x520:
          levels 1-2; TOAST 90x60 and 200x150); histories fresh,reuse,override,reuse /
          fresh,override,reuse / fresh,reuse,reuse; after every step EVERY field of the returned ImageSet / Place
          (attributes, texts, child elements, the image set nested in the Place) vs index_rel.wtml.  Injectivity: all positions to depth 6 plus 3000 seeded positions
          and digit-shift adversarial pairs to depth 13.
thorough: as above with 16 extra seeded image sizes up to 1300 px (level 3) and the corner sizes
          256x256, 257x256, 1x1, 2049x3 (level 4), depth up to 3, all 8 histories of length 3 after the
          fresh call for each of 7 tile_fits set-ups (TAN with 1-3 files incl. seeded sizes, TOAST 1-2 files).
Trusted: PNG/NPY/FITS codecs are lossless (JPEG compared with a tolerance and a nearest-content
test); wwt_data_formats serialises an ImageSet the same way in memory and on disk.
Not covered: HiPS mode (needs java + network), tile-wwtl, tile-healpix, the Azure pipeline store.
"""
import contextlib
import io
import json
import os
import re
import shutil
import warnings
import xml.etree.ElementTree as ET

import numpy as np

from rt.common import call_isolated

O_ADDR = "rt/wtml/url_addresses_written_tiles"
O_UNADDR = "rt/wtml/no_unaddressed_tiles"
O_INJ = "rt/wtml/url_injective"
O_FTYPE = "rt/wtml/file_type"
O_LEVELS = "rt/wtml/tile_levels"
O_DESCR = "rt/tile_fits/description_matches_wtml"

TILE_EXT = ("png", "jpg", "npy", "fits")
FAMILIES = ("study_api", "study_cli", "allsky_api", "allsky_cli", "tile_fits", "pipeline")


# ----------------------------------------------------------------------------------------
# ghost log of write_image

_LOG = {"dir": None, "n": 0}


def install_write_log(logdir):
    from toasty.pyramid import PyramidIO
    os.makedirs(logdir, exist_ok=True)
    _LOG["dir"] = logdir
    if getattr(PyramidIO.write_image, "_c17_wrapped", False):
        return
    orig = PyramidIO.write_image

    def write_image(self, pos, image, *args, **kwargs):
        import time
        try:
            arr = np.array(image.asarray(), copy=True)
            masked = bool(image.is_completely_masked())
        except Exception:
            arr, masked = None, None
        r = orig(self, pos, image, *args, **kwargs)
        d = _LOG["dir"]
        if d is not None:
            _LOG["n"] += 1
            stem = "%d_%d" % (os.getpid(), _LOG["n"])
            if arr is not None:
                np.save(os.path.join(d, stem + ".npy"), arr)
            fmt = kwargs.get("format") or (args[0] if args else None)
            rec = {"t": time.time_ns(), "base": os.path.abspath(self._base_dir), "pos": [int(pos.n), int(pos.x), int(pos.y)],
                   "masked": masked, "arr": stem if arr is not None else None, "format": fmt}
            fd = os.open(os.path.join(d, "log.jsonl"), os.O_WRONLY | os.O_APPEND | os.O_CREAT)
            try:
                os.write(fd, (json.dumps(rec) + "\n").encode())
            finally:
                os.close(fd)
        return r

    write_image._c17_wrapped = True
    PyramidIO.write_image = write_image


def take_log(logdir):
    """Read and clear the log: {base_dir: {pos: {'masked':bool,'arr':ndarray}}} (last write wins)."""
    p = os.path.join(logdir, "log.jsonl")
    out = {}
    if os.path.exists(p):
        recs = [json.loads(l) for l in open(p) if l.strip()]
        recs.sort(key=lambda r: r["t"])
        for r in recs:
            arr = np.load(os.path.join(logdir, r["arr"] + ".npy")) if r["arr"] else None
            out.setdefault(r["base"], {})[tuple(r["pos"])] = {"masked": r["masked"], "arr": arr}
    for fn in os.listdir(logdir):
        os.unlink(os.path.join(logdir, fn))
    return out


# ----------------------------------------------------------------------------------------
# independent reading of the outputs

def expand(url, n, x, y):
    return url.replace("{0}", "0").replace("{1}", str(n)).replace("{2}", str(x)).replace("{3}", str(y))


def read_wtml(path):
    root = ET.parse(path).getroot()
    imgset = None
    place = None
    for el in root.iter():
        if el.tag == "ImageSet" and imgset is None:
            imgset = dict(el.attrib)
        if el.tag == "Place" and place is None:
            place = dict(el.attrib)
    return imgset, place


def list_tile_files(base):
    out = []
    for dirpath, _dirs, files in os.walk(base):
        for fn in files:
            rel = os.path.relpath(os.path.join(dirpath, fn), base).replace(os.sep, "/")
            ext = fn.rsplit(".", 1)[-1] if "." in fn else ""
            if ext in TILE_EXT and rel not in ("thumb.jpg",):
                out.append(rel)
    return sorted(out)


def decode(path):
    ext = path.rsplit(".", 1)[-1]
    if ext in ("png", "jpg"):
        from PIL import Image as PILImage
        with PILImage.open(path) as im:
            im.load()
            return np.asarray(im)
    if ext == "npy":
        return np.load(path)
    from astropy.io import fits
    with fits.open(path) as hdul:
        return np.array(hdul[0].data)


def content_distance(file_arr, logged):
    a = np.asarray(file_arr)
    b = np.asarray(logged)
    if a.ndim == 3 and b.ndim == 3 and a.shape[2] != b.shape[2]:
        c = min(a.shape[2], b.shape[2], 3)
        a, b = a[..., :c], b[..., :c]
    if a.ndim == 2 and b.ndim == 3:
        b = b[..., 0]
    if a.ndim == 3 and b.ndim == 2:
        a = a[..., 0]
    if a.shape != b.shape:
        return float("inf")
    a = a.astype(np.float64)
    b = b.astype(np.float64)
    both_nan = np.isnan(a) & np.isnan(b)
    d = np.abs(a - b)
    d[both_nan] = 0.0
    if np.isnan(d).any():
        return float("inf")
    return float(d.mean()) if d.size else 0.0


def level_of(rel, url):
    """Level encoded in a tile path according to the template (regex built from the template)."""
    pat = re.escape(url)
    for k, name in (("1", "n"), ("2", "x"), ("3", "y")):
        first = True
        token = re.escape("{%s}" % k)
        while token in pat:
            pat = pat.replace(token, "(?P<%s>\\d+)" % name if first else "(?P=%s)" % name, 1)
            first = False
    m = re.fullmatch(pat, rel)
    if not m:
        return None
    return int(m.group("n")), int(m.group("x")), int(m.group("y"))


def injectivity_positions(seed):
    import random
    rng = random.Random(seed)
    pos = []
    for n in range(0, 7):
        for x in range(2 ** n):
            for y in range(2 ** n):
                pos.append((n, x, y))
    for _ in range(3000):
        n = rng.randint(7, 13)
        pos.append((n, rng.randrange(2 ** n), rng.randrange(2 ** n)))
    # digit-shift adversaries: the same digit string cut at different places
    for _ in range(600):
        digits = "".join(rng.choice("0123456789") for _ in range(rng.randint(3, 9))).lstrip("0") or "1"
        for i in range(1, len(digits)):
            for j in range(i + 1, len(digits) + 1):
                a, b, c = digits[:i], digits[i:j], digits[j:]
                if not c or (len(b) > 1 and b[0] == "0") or (len(c) > 1 and c[0] == "0"):
                    continue
                n, x, y = int(a), int(b), int(c)
                if n <= 13 and x < 2 ** n and y < 2 ** n:
                    pos.append((n, x, y))
                    if y < 2 ** n and x < 2 ** n:
                        pos.append((n, y, x))
    return sorted(set(pos))


def check_pyramid(base, state, ctxw, seed):
    """All ``rt/wtml/*`` clauses for the pyramid in ``base``. ``state``: pos -> {'masked','arr'} as last written.
    Returns list of (obligation, extra, message)."""
    fails = []
    wtml = os.path.join(base, "index_rel.wtml")
    imgset, _place = read_wtml(wtml)
    url = imgset.get("Url", "")
    ctxw["url"] = url
    ftype = imgset.get("FileType", "")
    levels = imgset.get("TileLevels")
    on_disk = list_tile_files(base)
    # --- addressing
    addressed = set()
    n_addr = 0
    live = dict((p, v) for p, v in state.items() if not v["masked"])
    for pos, v in sorted(live.items()):
        rel = expand(url, *pos)
        addressed.add(rel)
        p = os.path.join(base, rel)
        problem = None
        if "{" in rel or not os.path.isfile(p):
            problem = "no file at the expanded path"
        else:
            ext = rel.rsplit(".", 1)[-1]
            try:
                got = decode(p)
            except Exception as e:
                problem = "file cannot be decoded: %r" % (e,)
            else:
                d = content_distance(got, v["arr"])
                if ext == "fits" and d != 0.0:
                    d = min(d, content_distance(got[::-1], v["arr"]))
                if ext == "jpg":
                    if not d < 12.0:
                        problem = "JPEG content differs from what was written for this position (mean abs diff %.3g)" % d
                    else:
                        # lossy codec: only a clear preference for another position's pixels counts
                        others = [content_distance(got, w["arr"]) for q, w in live.items() if q != pos]
                        if others and d > 3.0 and min(others) < 0.5 * d:
                            problem = "JPEG content is clearly closer to the tile written for another position (%.3g vs %.3g)" % (min(others), d)
                elif d != 0.0:
                    problem = "content differs from what was written for this position (mean abs diff %.3g)" % d
        n_addr += 1
        if problem and sum(1 for f in fails if f[0] == O_ADDR) < 2:
            near = on_disk[:8]
            fails.append((O_ADDR, {"pos": list(pos), "expected_path": rel, "problem": problem, "files_on_disk": near},
                          "tile (%d,%d,%d): %s; Url %r expands to %r" % (pos[0], pos[1], pos[2], problem, url, rel)))
    for rel in on_disk:
        if rel not in addressed and sum(1 for f in fails if f[0] == O_UNADDR) < 2:
            fails.append((O_UNADDR, {"path": rel},
                          "file %r is on disk but Url %r does not yield it for any position whose tile was written" % (rel, url)))
    # --- injectivity of the template actually emitted
    seen = {}
    for pos in injectivity_positions(seed):
        rel = expand(url, *pos)
        if rel in seen and seen[rel] != pos:
            fails.append((O_INJ, {"pos_a": list(seen[rel]), "pos_b": list(pos), "path": rel},
                          "positions %r and %r both expand to %r" % (seen[rel], pos, rel)))
            break
        seen[rel] = pos
    # --- file type
    exts = sorted(set(r.rsplit(".", 1)[-1] for r in on_disk))
    url_ext = url.rsplit(".", 1)[-1] if "." in url else ""
    if exts and (len(exts) != 1 or ftype.lstrip(".") != exts[0] or url_ext != exts[0]):
        fails.append((O_FTYPE, {"file_type": ftype, "extensions": exts, "url_extension": url_ext},
                      "FileType %r / Url extension %r, tile files have extension(s) %r" % (ftype, url_ext, exts)))
    # --- tile levels
    lv = [level_of(r, url) for r in on_disk]
    lv = [t[0] for t in lv if t is not None]
    deepest = max(lv) if lv else None
    deepest_written = max([p[0] for p in live]) if live else None
    try:
        tl = int(levels)
    except (TypeError, ValueError):
        tl = None
    want = deepest if deepest is not None else deepest_written
    if want is not None and tl != want:
        fails.append((O_LEVELS, {"tile_levels": levels, "deepest_on_disk": deepest, "deepest_written": deepest_written},
                      "TileLevels=%r but the deepest populated layer is %r" % (levels, want)))
    return fails, n_addr


def deepest_layer(base, url):
    """Depth of the deepest layer that holds a tile file, read off the paths through the template."""
    lv = [level_of(r, url) for r in list_tile_files(base)]
    lv = [t[0] for t in lv if t is not None]
    return max(lv) if lv else None


# ----------------------------------------------------------------------------------------
# inputs

def rgb_pattern(H, W):
    y, x = np.mgrid[0:H, 0:W]
    a = np.zeros((H, W, 3), dtype=np.uint8)
    a[..., 0] = (x * 255) // max(W - 1, 1)
    a[..., 1] = (y * 255) // max(H - 1, 1)
    a[..., 2] = (x * 7 + y * 13 + (x * y) % 11) % 256
    return a


def float_pattern(H, W):
    y, x = np.mgrid[0:H, 0:W]
    return (y * W + x + 0.5).astype(np.float32)


def write_fits_input(path, H, W, crval, scale, crpix=None, base=0.0):
    from astropy.io import fits
    from astropy.wcs import WCS
    w = WCS(naxis=2)
    w.wcs.ctype = ["RA---TAN", "DEC--TAN"]
    w.wcs.crval = list(crval)
    w.wcs.crpix = list(crpix) if crpix else [(W + 1) / 2.0, (H + 1) / 2.0]
    w.wcs.cdelt = [-scale, scale]
    fits.PrimaryHDU(float_pattern(H, W) + base, header=w.to_header()).writeto(path, overwrite=True)


# ----------------------------------------------------------------------------------------
# workflows (run inside the isolated process)

def _quiet():
    return contextlib.redirect_stdout(io.StringIO())


def _run_study_api(spec, d):
    from toasty.builder import Builder
    from toasty.image import Image
    from toasty.pyramid import PyramidIO
    base = os.path.join(d, "out")
    pio = PyramidIO(base, scheme=spec["scheme"], default_format=spec["format"])
    b = Builder(pio)
    H, W = spec["H"], spec["W"]
    data = rgb_pattern(H, W) if spec["format"] in ("png", "jpg") else float_pattern(H, W)
    img = Image.from_array(data)
    with _quiet():
        if spec.get("two_step"):
            tiling = b.prepare_study_tiling(img)
            b.default_tiled_study_astrometry()
            b.execute_study_tiling(img, tiling)
        else:
            b.tile_base_as_study(img)
            b.default_tiled_study_astrometry()
        if spec.get("cascade", True):
            b.cascade(parallel=1)
        b.write_index_rel_wtml()
    return base


def _cli(args):
    from toasty import cli
    with _quiet():
        cli.entrypoint(args)


def _run_study_cli(spec, d):
    from PIL import Image as PILImage
    src = os.path.join(d, "input.png")
    PILImage.fromarray(rgb_pattern(spec["H"], spec["W"])).save(src)
    base = os.path.join(d, "out")
    _cli(["tile-study", "--outdir", base, src])
    imgset, _ = read_wtml(os.path.join(base, "index_rel.wtml"))
    if spec.get("cascade", True) and int(imgset.get("TileLevels", "0")) > 0:
        _cli(["cascade", "--start", imgset["TileLevels"], "-j", "1", base])
    return base


def _run_allsky_api(spec, d):
    from toasty.builder import Builder
    from toasty.pyramid import PyramidIO
    from toasty.samplers import plate_carree_sampler
    base = os.path.join(d, "out")
    pio = PyramidIO(base, scheme=spec["scheme"], default_format=spec["format"])
    b = Builder(pio)
    H, W = spec["H"], spec["W"]
    data = rgb_pattern(H, W) if spec["format"] in ("png", "jpg") else float_pattern(H, W)
    with _quiet():
        b.toast_base(plate_carree_sampler(data), spec["depth"], parallel=1)
        if spec.get("cascade", True):
            b.cascade(parallel=1)
        b.write_index_rel_wtml()
    return base


def _run_allsky_cli(spec, d):
    from PIL import Image as PILImage
    src = os.path.join(d, "input.png")
    PILImage.fromarray(rgb_pattern(spec["H"], spec["W"])).save(src)
    base = os.path.join(d, "out")
    _cli(["tile-allsky", "--outdir", base, "--projection", spec.get("projection", "plate-carree"), "-j", "1", src, str(spec["depth"])])
    if spec.get("cascade", True) and spec["depth"] > 0:
        _cli(["cascade", "--start", str(spec["depth"]), "-j", "1", base])
    return base


def _run_pipeline(spec, d):
    import yaml
    import toasty.pipeline as tp
    from toasty.image import Image
    H, W = spec["H"], spec["W"]

    class Src(tp.ImageSource):
        @classmethod
        def get_config_key(cls):
            return "c17_stub"

        @classmethod
        def deserialize(cls, data):
            return cls()

        def query_candidates(self):
            return iter(())

        def fetch_candidate(self, unique_id, cand_data_stream, cachedir):
            pass

        def process(self, unique_id, cand_data_stream, cachedir, builder):
            img = Image.from_array(rgb_pattern(H, W))
            builder.tile_base_as_study(img)
            builder.make_thumbnail_from_other(img)
            builder.default_tiled_study_astrometry()
            builder.set_name("stub " + unique_id)
            builder.cascade(parallel=1)

    tp.IMAGE_SOURCE_CLASS_LOADERS["c17-stub"] = lambda: Src
    wd = os.path.join(d, "wd")
    os.makedirs(os.path.join(wd, "candidates"))
    os.makedirs(os.path.join(wd, "cache_todo", "img1"))
    os.makedirs(os.path.join(d, "store"))
    with open(os.path.join(wd, "candidates", "img1"), "wb") as f:
        f.write(b"{}")
    with open(os.path.join(wd, "toasty-store-config.yaml"), "w") as f:
        yaml.safe_dump({"_type": "local", "path": os.path.join(d, "store")}, f)
    with open(os.path.join(wd, "toasty-pipeline-config.yaml"), "w") as f:
        yaml.safe_dump({"source_type": "c17-stub", "c17_stub": {}}, f)
    from toasty.pipeline.cli import pipeline_impl
    import argparse
    with _quiet():
        pipeline_impl(argparse.Namespace(pipeline_command="process-todos", workdir=wd))
    return os.path.join(wd, "processed", "img1")


def _flatten_xml(el, prefix, out):
    """Every field of a serialised element: attributes ('<path>.<Attr>'), text ('<path>#text') and, recursively, child
    elements ('<path>/<Child>', with an index when a tag repeats)."""
    for k, v in el.attrib.items():
        out[prefix + "." + k] = v
    t = (el.text or "").strip()
    if t:
        out[prefix + "#text"] = t
    tags = [c.tag for c in el]
    seen = {}
    for c in el:
        seen[c.tag] = seen.get(c.tag, 0) + 1
        name = c.tag if tags.count(c.tag) == 1 else "%s[%d]" % (c.tag, seen[c.tag])
        _flatten_xml(c, prefix + "/" + name, out)
    return out


def _description_diffs(builder, base):
    """Compare EVERY field of the ImageSet / Place handed back with index_rel.wtml (the returned objects go through the
    serialiser that wrote the file; the file is read with xml.etree): all attributes, texts and child elements of the
    ImageSet and, when the WTML has a Place, of the Place including the image set nested in it."""
    if builder is None:
        return {"builder": ["None", "present"]}
    root = ET.parse(os.path.join(base, "index_rel.wtml")).getroot()
    imgset_el = next((el for el in root.iter("ImageSet")), None)
    place_el = next((el for el in root.iter("Place")), None)
    pairs = []
    if imgset_el is not None:
        pairs.append(("ImageSet", builder.imgset.to_xml(), imgset_el))
    if place_el is not None:
        pairs.append(("Place", builder.place.to_xml(), place_el))
    diffs = {}
    if not pairs:
        return {"wtml": [None, "neither ImageSet nor Place element"]}
    for name, got_el, want_el in pairs:
        got, want = _flatten_xml(got_el, name, {}), _flatten_xml(want_el, name, {})
        for k in sorted(set(got) | set(want)):
            if got.get(k) != want.get(k):
                diffs[k] = [got.get(k), want.get(k)]
    return diffs


def run_spec(spec, d, logdir):
    """One workflow (with its history for tile_fits). Returns {'fails': [...], 'evaluated': n_steps, 'tiles': n, 'notes': []}"""
    warnings.simplefilter("ignore")
    fails, notes = [], []
    tiles = 0
    evaluated = 0
    wf = spec["workflow"]
    summ = {"workflow": wf, "scheme": spec.get("scheme", "LXY" if wf == "pipeline" else "L/Y/YX"), "format": spec.get("format"),
            "history_step": "fresh", "step_index": 0, "mode": spec.get("mode"), "url": None}
    os.makedirs(d, exist_ok=True)
    take_log(logdir)
    if wf != "tile_fits":
        try:
            base = {"study_api": _run_study_api, "study_cli": _run_study_cli, "allsky_api": _run_allsky_api,
                    "allsky_cli": _run_allsky_cli, "pipeline": _run_pipeline}[wf](spec, d)
        except (Exception, SystemExit) as e:
            notes.append("workflow %s raised %r on its fresh run -- not judged (spec %s)" % (wf, e, json.dumps(spec, sort_keys=True)))
            take_log(logdir)
            return {"fails": [], "evaluated": 0, "tiles": 0, "notes": notes}
        log = take_log(logdir)
        state = log.get(os.path.abspath(base), {})
        w = dict(summ)
        f, n = check_pyramid(base, state, w, spec.get("seed", 0))
        fails += [(o, dict(w, **e), m) for o, e, m in f]
        return {"fails": fails, "evaluated": 1, "tiles": n, "notes": notes}
    # ---- tile_fits with a history
    import toasty
    from toasty import TilingMethod
    mode = spec["mode"]
    paths = []
    files = spec.get("files")      # per-input description (own size, pixel scale, place), in input order
    for k in range(len(files) if files else spec["n_files"]):
        p = os.path.join(d, "in%d.fits" % k)
        if files:
            f = files[k]
            write_fits_input(p, f["H"], f["W"], tuple(f["crval"]), f["scale"], base=f.get("base", 1000.0 * k))
            paths.append(p)
            continue
        H, W = spec["H"], spec["W"]
        if mode == "TAN":
            write_fits_input(p, H, W, (10.0, 20.0), spec["scale"], crpix=[(W + 1) / 2.0 - k * (W - 40), (H + 1) / 2.0 + k * 30], base=1000.0 * k)
        else:
            write_fits_input(p, H, W, (40.0 + 30 * k, 10.0 - 20 * k), spec["scale"], base=1000.0 * k)
        paths.append(p)
    base = os.path.join(d, "tiled")
    state = {}
    for si, step in enumerate(spec["history"]):
        w = dict(summ, history_step=step, step_index=si, history=list(spec["history"]), override=(step == "override"))
        take_log(logdir)
        try:
            with _quiet():
                out_dir, bld = toasty.tile_fits(paths if len(paths) > 1 else paths[0], out_dir=base, override=(step == "override"),
                                                parallel=1, tiling_method=TilingMethod.TAN if mode == "TAN" else TilingMethod.TOAST)
        except (Exception, SystemExit) as e:
            if si == 0:
                notes.append("tile_fits raised %r on its fresh run -- not judged (spec %s)" % (e, json.dumps(spec, sort_keys=True)))
                return {"fails": [], "evaluated": 0, "tiles": 0, "notes": notes}
            fails.append((O_DESCR, dict(w, differs={"exception": [repr(e), None]}),
                          "tile_fits raised %r at history step %d (%s) on a directory left by an identical call" % (e, si, step)))
            continue
        log = take_log(logdir)
        if step in ("fresh", "override"):
            state = {}
        state.update(log.get(os.path.abspath(base), {}))
        evaluated += 1
        if os.path.abspath(out_dir) != os.path.abspath(base) or not os.path.exists(os.path.join(base, "index_rel.wtml")):
            fails.append((O_DESCR, dict(w, differs={"out_dir": [out_dir, base]}), "tile_fits returned out_dir %r, index_rel.wtml expected in %r" % (out_dir, base)))
            continue
        f, n = check_pyramid(base, state, w, spec.get("seed", 0))
        tiles += n
        fails += [(o, dict(w, **e), m) for o, e, m in f]
        # the description handed back must itself name the deepest populated layer (not only agree with the WTML)
        deep = deepest_layer(base, w.get("url") or "")
        try:
            tl_b = int(bld.imgset.tile_levels)
        except Exception:
            tl_b = None
        if deep is not None and tl_b != deep:
            fails.append((O_LEVELS, dict(w, source="returned_builder", tile_levels=tl_b, deepest_on_disk=deep, deepest_written=None),
                          "history step %d (%s): the Builder returned by tile_fits says tile_levels=%r but the deepest populated layer on disk is %r"
                          % (si, step, tl_b, deep)))
        diffs = _description_diffs(bld, base)
        if diffs:
            keys = sorted(diffs)
            fails.append((O_DESCR, dict(w, differs=diffs),
                          "history step %d (%s): the Builder returned by tile_fits disagrees with index_rel.wtml on %s" % (
                              si, step, ", ".join("%s (returned %r, WTML %r)" % (k, diffs[k][0], diffs[k][1]) for k in keys[:6]))))
    return {"fails": fails, "evaluated": evaluated, "tiles": tiles, "notes": notes}


def run_batch(specs, directory):
    """Entry point for call_isolated."""
    logdir = os.path.join(directory, "log")
    install_write_log(logdir)
    out = []
    for i, spec in enumerate(specs):
        d = os.path.join(directory, "s%d" % i)
        try:
            out.append(run_spec(spec, d, logdir))
        except Exception:
            import traceback
            out.append({"error": traceback.format_exc()[-1800:]})
        shutil.rmtree(d, ignore_errors=True)
    return out


# ----------------------------------------------------------------------------------------
# domain

def build_specs(ctx):
    rng = ctx.rng
    thorough = ctx.thorough
    specs = []
    sizes = [(200, 120), (300, 520), (700, 300), (1100, 530)]   # (W, H): level 0, 2, 2, 3
    if thorough:
        sizes += [(rng.randint(20, 1300), rng.randint(20, 1300)) for _ in range(16)] + [(256, 256), (257, 256), (1, 1), (2049, 3)]
    for scheme in ("L/Y/YX", "LXY"):
        for fmt in ("png", "jpg", "npy", "fits"):
            for k, (W, H) in enumerate(sizes):
                specs.append({"workflow": "study_api", "scheme": scheme, "format": fmt, "W": W, "H": H, "two_step": (k % 2 == 1), "cascade": True})
    for (W, H) in ([(300, 180), (640, 260)] + ([(900, 1100)] if thorough else [])):
        specs.append({"workflow": "study_cli", "W": W, "H": H, "format": "png", "cascade": True})
    depths = (0, 1, 2, 3) if thorough else (0, 1, 2)
    for scheme in ("L/Y/YX", "LXY"):
        for fmt in (("png", "fits", "jpg", "npy") if thorough else ("png", "fits", "jpg")):
            for depth in depths:
                specs.append({"workflow": "allsky_api", "scheme": scheme, "format": fmt, "depth": depth, "W": 256, "H": 128, "cascade": True})
    for depth in ((1, 2, 3) if thorough else (1, 2)):
        specs.append({"workflow": "allsky_cli", "depth": depth, "W": 180, "H": 90, "format": "png",
                      "projection": "plate-carree" if depth != 2 else "plate-carree-planet", "cascade": True})
    for (W, H) in ([(300, 200), (520, 700)] + ([(1030, 400)] if thorough else [])):
        specs.append({"workflow": "pipeline", "W": W, "H": H, "format": "png", "scheme": "LXY"})
    if thorough:
        import itertools
        histories = [["fresh"] + list(t) for t in itertools.product(["reuse", "override"], repeat=3)]
    else:
        histories = [["fresh", "reuse", "override", "reuse"], ["fresh", "override", "reuse"], ["fresh", "reuse", "reuse"]]
    # image extents on both sides of the one-tile boundary (a study of at most 256 x 256 px is the single tile 0/0/0_0 and
    # is recorded as a plain sky image, a larger one as a tiled study), in both modes, under every history
    setups = [{"mode": "TAN", "n_files": 1, "W": 300, "H": 260, "scale": 0.002},
              {"mode": "TAN", "n_files": 2, "W": 280, "H": 300, "scale": 0.002},
              {"mode": "TOAST", "n_files": 1, "W": 90, "H": 60, "scale": 0.4},
              {"mode": "TAN", "n_files": 1, "W": 200, "H": 150, "scale": 0.002},
              {"mode": "TAN", "n_files": 1, "W": 256, "H": 256, "scale": 0.001},
              {"mode": "TAN", "n_files": 2, "W": 120, "H": 100, "scale": 0.004},
              {"mode": "TAN", "n_files": 1, "W": 700, "H": 520, "scale": 0.001},
              {"mode": "TOAST", "n_files": 1, "W": 200, "H": 150, "scale": 0.1}]
    if thorough:
        setups += [{"mode": "TAN", "n_files": 1, "W": 257, "H": 256, "scale": 0.001},
                   {"mode": "TAN", "n_files": 1, "W": 1, "H": 1, "scale": 0.01},
                   {"mode": "TAN", "n_files": 1, "W": rng.randint(2, 256), "H": rng.randint(2, 256), "scale": 0.003},
                   {"mode": "TAN", "n_files": 1, "W": rng.randint(2, 256), "H": rng.randint(257, 600), "scale": 0.003},
                   {"mode": "TOAST", "n_files": 1, "W": rng.randint(20, 256), "H": rng.randint(20, 256), "scale": 0.2}]
        setups += [{"mode": "TAN", "n_files": 3, "W": 330, "H": 200, "scale": 0.001},
                   {"mode": "TOAST", "n_files": 2, "W": 120, "H": 80, "scale": 0.2},
                   {"mode": "TAN", "n_files": 1, "W": rng.randint(30, 900), "H": rng.randint(30, 900), "scale": 0.0005},
                   {"mode": "TAN", "n_files": 2, "W": rng.randint(100, 600), "H": rng.randint(30, 600), "scale": 0.003}]
    for su in setups:
        for h in histories:
            specs.append(dict(su, workflow="tile_fits", format="fits", scheme="L/Y/YX", history=h))
    # TOAST auto-tiling of inputs with clearly different pixel scales (natural TOAST levels 1, 3, 4: at level L a
    # tile pixel is 21.095 / 2^(L-1) arcmin), no `start` pinned, every input order: whichever input comes last,
    # TileLevels (WTML and returned Builder) must be the deepest populated layer.
    import itertools as _it
    ms = [{"W": 30, "H": 20, "scale": 0.4, "crval": [40.0, 10.0], "base": 0.0},
          {"W": 24, "H": 16, "scale": 0.1, "crval": [70.0, -10.0], "base": 1000.0},
          {"W": 20, "H": 14, "scale": 0.05, "crval": [100.0, 25.0], "base": 2000.0}]
    combos = [((0, 1), ["fresh", "reuse"]), ((0, 2), ["fresh"]), ((0, 1, 2), ["fresh"])]
    if thorough:
        combos = [((0, 1), ["fresh", "reuse", "override", "reuse"]), ((0, 2), ["fresh", "override"]), ((1, 2), ["fresh", "reuse"]),
                  ((0, 1, 2), ["fresh", "reuse"])]
        ms.append({"W": rng.randint(8, 30), "H": rng.randint(8, 30), "scale": rng.choice([0.3, 0.4, 0.6]),
                   "crval": [rng.uniform(0, 360), rng.uniform(-60, 60)], "base": 3000.0})
        ms.append({"W": rng.randint(8, 30), "H": rng.randint(8, 30), "scale": rng.choice([0.03, 0.06, 0.08]),
                   "crval": [rng.uniform(0, 360), rng.uniform(-60, 60)], "base": 4000.0})
        combos += [((3, 4), ["fresh", "reuse"]), ((3, 1, 4), ["fresh"])]
    for members, h in combos:
        for order in _it.permutations(members):
            specs.append({"workflow": "tile_fits", "mode": "TOAST", "format": "fits", "scheme": "L/Y/YX", "history": list(h),
                          "n_files": len(order), "files": [ms[i] for i in order], "input_order": list(order), "mixed_scales": True})
    for s in specs:
        s["seed"] = ctx.seed
    return specs


def run(ctx):
    from concurrent.futures import ProcessPoolExecutor
    import multiprocessing as mp
    specs = build_specs(ctx)
    for fam in FAMILIES:
        ctx.monitor("c17.evaluated." + fam, 0)
    ctx.bound("%d workflow runs: %s" % (len(specs), ", ".join("%s x%d" % (f, sum(1 for s in specs if s["workflow"] == f)) for f in FAMILIES)))
    ctx.bound("schemes L/Y/YX and LXY; formats png, jpg, npy, fits; study image sizes up to %d px; all-sky depth <= %d; tile_fits TAN "
              "(1-%d files) and TOAST with histories %s" % (1300 if ctx.thorough else 700, 3 if ctx.thorough else 2, 3 if ctx.thorough else 2,
                                                           "all 8 of length 3 after fresh" if ctx.thorough else "fresh,reuse,override,reuse / fresh,override,reuse / fresh,reuse,reuse"))
    ctx.bound("tile_fits inputs: TAN one-tile pyramids (200x150, 256x256, two-file mosaic 200x130%s) and multi-level ones (300x260, two-file "
              "520x330, 700x520%s), TOAST 90x60 @0.4 deg/px and 200x150 @0.1 deg/px; after EVERY step of every history every field of the "
              "returned ImageSet and Place (all attributes, texts and child elements, incl. the image set nested in the Place) is compared "
              "with index_rel.wtml" % (", 1x1, seeded <= 256 px" if ctx.thorough else "", ", 257x256, seeded" if ctx.thorough else ""))
    nmix = sum(1 for s in specs if s.get("mixed_scales"))
    ctx.bound("%d of the tile_fits runs: TOAST mode, no `start`, 2-3 tiny inputs (<= 30 px) whose pixel scales differ by >= 4x (0.4, 0.1, "
              "0.05 deg/px: natural TOAST levels 1, 3, 4%s), every input order; TileLevels of the WTML and of the returned Builder vs the "
              "deepest layer on disk" % (nmix, "; plus two seeded coarse/fine inputs" if ctx.thorough else ""))
    ctx.bound("every position whose tile was written (ghost log of PyramidIO.write_image, all levels) vs the expanded Url; every tile file on "
              "disk vs the set of expanded positions; injectivity over all positions to depth 6 + 3000 seeded + digit-shift pairs to depth 13")
    ctx.assume("PNG/NPY/FITS codecs lossless, JPEG within mean abs error 12 and not clearly (2x, > 3 grey levels) closer to another position's tile; wwt_data_formats serialises the "
               "returned ImageSet/Place exactly as it serialised them into index_rel.wtml; PyramidIO.write_image is the only tile writer")
    # group into batches: tile_fits specs are the slow ones -> one per batch; others by 6
    fast = [s for s in specs if s["workflow"] != "tile_fits"]
    slow = [s for s in specs if s["workflow"] == "tile_fits"]
    batches = [[s] for s in slow] + [fast[i:i + 5] for i in range(0, len(fast), 5)]
    timeout = 540 if ctx.thorough else 150
    nproc = min(12, max(1, (mp.cpu_count() or 2) - 2))
    reported = {}
    results = []
    with ProcessPoolExecutor(max_workers=nproc, mp_context=mp.get_context("fork")) as ex:
        futs = [ex.submit(call_isolated, "rt.c17", "run_batch", {"specs": b, "directory": os.path.join(ctx.workdir, "b%d" % i)}, timeout)
                for i, b in enumerate(batches)]
        for b, fut in zip(batches, futs):
            results.append((b, fut.result()))
    tiles = 0
    for b, (status, result, secs) in results:
        if status == "timeout":
            # a hang of a workflow is observable but is not a clause of this property: not judged, but loud
            ctx.note("batch %s did not finish within %d s (hang?) -- not judged" % ([s["workflow"] for s in b], timeout))
            for s in b:
                ctx.case(json.dumps(s, sort_keys=True), nontrivial=False)
            continue
        if status != "ok":
            raise RuntimeError("checker error in rt/c17 batch %s: %s" % ([s["workflow"] for s in b], result))
        for spec, res in zip(b, result):
            if res.get("error"):
                raise RuntimeError("checker error in rt/c17 on %s:\n%s" % (json.dumps(spec), res["error"]))
            steps = len(spec.get("history", [1]))
            for k in range(steps):
                ctx.case(json.dumps(spec, sort_keys=True) + "#%d" % k, nontrivial=(k < res["evaluated"]))
            if res["evaluated"]:
                ctx.monitor("c17.evaluated." + spec["workflow"], res["evaluated"])
            tiles += res["tiles"]
            for n in res["notes"]:
                ctx.note(n)
            if len(ctx.samples) < 6 and res["evaluated"]:
                ctx.sample(spec)
            for obl, wit, msg in res["fails"]:
                c = reported.get(obl, 0)
                if c < 5:
                    w = dict(wit)
                    w["spec"] = spec
                    ctx.violation(obl, w, msg)
                reported[obl] = c + 1
    ctx.monitor("c17.tiles_compared_with_expanded_url", tiles)
    for obl, c in reported.items():
        if c > 5:
            ctx.note("%s failed %d times (first 5 reported)" % (obl, c))


def replay(obligation, witness):
    import tempfile
    d = tempfile.mkdtemp(prefix="verif_c17_replay_")
    try:
        status, result, secs = call_isolated("rt.c17", "run_batch", {"specs": [witness["spec"]], "directory": d}, 300)
    finally:
        shutil.rmtree(d, ignore_errors=True)
    if status != "ok":
        return True, "could not replay (%s): %s" % (status, result)
    res = result[0]
    if res.get("error"):
        return True, "could not replay: %s" % res["error"]
    same = [f for f in res["fails"] if f[0] == obligation and
            (f[1].get("step_index") == witness.get("step_index") or witness.get("step_index") is None)]
    if same:
        return False, same[0][2]
    return True, "obligation holds on this witness" + (" (other obligations fail: %s)" % sorted(set(f[0] for f in res["fails"])) if res["fails"] else "")
