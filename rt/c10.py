"""C10 -- concurrent updates of one tile never lose a contribution (bounded tier: lock stress).

N forked processes update ONE tile through the real ``PyramidIO.update_image`` at overlapping times
(start barrier, random jitter, and a sleep injected *from the harness* after ``PyramidIO.read_image``
so that the read->write window of every update is several milliseconds wide: without a working,
commonly-keyed lock an update is lost almost surely).  Everything runs in a fresh interpreter under
a watchdog (``rt.common.call_isolated``).

Each update (k, r) -- updater k, round r -- performs, through the public calls used by toasty's own
tilers (``update_image`` + ``Image.update_into_maskable_buffer``), a contribution made of

* a *counter* pixel: value read + 1 (a true read-modify-write dependency),
* ``L`` private pixels nobody else writes (disjoint regions), holding the id of (k, r),
* in 'overlap' mode additionally one of 8 shared blocks (8 pixels) that every updater overwrites
  with its id (overlapping regions).

and logs what it *read* under the lock (counter, per-updater number of complete private
contributions, partial contributions, shared-block ids).  "Null" updates (nothing contributed)
are interleaved as pure readers holding the lock.

Oracle (from the statement: final tile == the updates applied one after another; a reader under
the lock never sees a partial tile):

* the counters read by the N*R real updates are exactly 0 .. N*R-1 (each update read the state
  left by a distinct predecessor => a total order exists and nothing was lost), and the final
  counter is N*R;
* replaying the updates in that order reproduces (a) every logged snapshot (private contributions
  present == those of the predecessors, each complete; shared blocks == last predecessor writing
  them) and (b) the final tile read back with numpy/astropy/PIL (not with toasty).

Obligations and witness keys (every witness carries the scenario: ``n_updaters, rounds,
pio_format, mode ('F32'|'RGBA'), scheme, pos, regions ('disjoint'|'overlap'), delay_ms,
own_pio (bool), seed``):

* ``rt/update_image/no_lost_update``   + ``final_counter, expected_counter, n_missing, first_missing [k,r]``
* ``rt/update_image/serial_order``     + ``detail`` (duplicate/missing counter values, snapshot or final
                                         shared block not explained by the serial order)
* ``rt/update_image/reader_sees_complete_tile`` + ``detail`` (read under the lock raised, or a partial
                                         contribution was visible)
* ``rt/update_image/critical_sections_exclusive`` + ``detail`` (two processes were between "read returned" and
                                         "about to write" at the same instant of the system-wide monotonic clock)
* ``rt/update_image/one_tile_file``    + ``detail, n_updates_elsewhere`` (a sibling of the tile in another format / another lock file
                                         exists, or an updater that opened the existing pyramid without naming a format did
                                         not get the pyramid's format: the contributions are spread over several files)
* ``rt/update_image/updater_runs``     + ``detail`` (an updater raised / exit code != 0)
* ``rt/update_image/terminates``       + ``timeout_s`` (watchdog; generous: >= 10x the expected time)

Bounds: quick: N in {2,4,8} x 64..100 updates per scenario, 8 scenarios (npy/fits F32, png/npy RGBA,
both naming schemes, tiles (0,0,0) .. (7,100,77), disjoint and overlapping regions, delay 2-5 ms).
thorough: N in {2,4,8,16} x 200 rounds (up to 3200 updates on one tile), 14 scenarios (21 200 updates).
Only schedules the OS produces under this stress are explored, not every interleaving.

Slow holder (witness keys ``hold_ms`` > 0, ``clock_factor``; both tiers: 2 scenarios quick, 4 thorough): updater 0
enters its first update and STAYS between read and write for ``hold_ms`` of real time (2-3 s); the other updaters
start only when it is inside, and in THEIR processes the interval clocks and the sleep function of the ``time``
module (``time.perf_counter`` / ``time.monotonic`` (+ _ns) / ``time.sleep`` -- what ``filelock`` uses for its
time-out and polling) run ``clock_factor`` times fast (60x / 600x: 2.5 s of holding are 2.5 / 25 minutes on the
waiters' clock), so that any "give up waiting after T seconds and take the lock over" logic fires, while a lock
that waits for the holder just polls more often.  ``time.time`` (wall clock, compared with file mtimes by
filelock's stale-marker self-healing) is left alone.  Installed from the harness after the fork, in the waiter
processes only; the harness itself uses the saved real functions.  The property requires the waiters to wait:
same oracle as above (every contribution present, serial order exists, critical sections disjoint).

Auto-detected format (witness keys ``open`` = 'auto', ``layout``; 8 scenarios quick, 16 thorough): the pyramid exists
before the updaters start (one other tile in ``pio_format`` = npy / fits, written with the plain codec) and every updater
opens it with ``PyramidIO(dir)`` -- no ``default_format``, as toasty's command-line tools do -- anew before each update,
i.e. while other updaters are inside their critical sections; ``layout`` (see ``prepare_layout``) adds the lock file of
another tile and / or a stray non-image file and fixes the creation order.  Same oracle (every contribution in the
pyramid's tile file, serial order) plus ``one_tile_file``.

Trusted: ``filelock.SoftFileLock`` (external), the OS's atomic O_EXCL create, numpy/astropy/PIL
codecs; float32 holds integers < 2^24 exactly.
"""
import os
import time
from concurrent.futures import ThreadPoolExecutor

import numpy as np

from rt.common import call_isolated

MOD = "rt.c10"
L = 4            # private pixels per contribution
NBLK = 8         # shared blocks
BLK = 8          # pixels per shared block
PRIV0 = 256      # flat index where private pixels start (row 1); row 0 holds counter + shared blocks
CAP = 5
KEYS = ("n_updaters", "rounds", "pio_format", "mode", "scheme", "pos", "regions", "delay_ms", "own_pio", "seed")
KEYS_OPT = {"hold_ms": 0, "clock_factor": 1,       # slow-holder scenarios (absent in older witnesses)
            "open": "explicit", "layout": None}    # auto-detected format on an existing pyramid (absent in older witnesses)
ALLKEYS = KEYS + tuple(KEYS_OPT)

# the harness' own clock / sleep: never the accelerated ones installed in waiter processes
_real_sleep = time.sleep
_real_monotonic = time.monotonic


def install_fast_clock(factor, counter=None):
    """Make the interval clocks and sleep of the ``time`` module run ``factor`` times fast IN THIS PROCESS
    (filelock's acquire loop reads ``time.perf_counter`` for its time-out and calls ``time.sleep`` between polls)."""
    real = {n: getattr(time, n) for n in ("perf_counter", "monotonic", "perf_counter_ns", "monotonic_ns", "sleep")}
    t0 = {n: real[n]() for n in real if n != "sleep"}

    def warped(n, as_int):
        def clock():
            v = t0[n] + (real[n]() - t0[n]) * factor
            return int(v) if as_int else v
        return clock

    def sleep(secs):
        if counter is not None:
            with counter.get_lock():
                counter.value += 1
        real["sleep"](secs / float(factor))

    for n in t0:
        setattr(time, n, warped(n, n.endswith("_ns")))
    time.sleep = sleep
    return real


# ---- value coding ---------------------------------------------------------------------------

def cid(k, r, rounds):
    return 1 + k * rounds + r          # > 0


def enc(mode, v):
    """integer -> pixel value"""
    if mode == "F32":
        return np.float32(v)
    return np.array([v & 255, (v >> 8) & 255, (v >> 16) & 255, 255], np.uint8)


def dec_flat(mode, arr):
    """tile array -> flat int64 array of decoded values, -1 where undefined"""
    if mode == "F32":
        a = np.asarray(arr, dtype=np.float64).reshape(-1)
        out = np.where(np.isnan(a), -1, a)
        return out.astype(np.int64)
    a = np.asarray(arr).reshape(-1, arr.shape[-1]).astype(np.int64)
    v = a[:, 0] + (a[:, 1] << 8) + (a[:, 2] << 16)
    return np.where(a[:, 3] == 0, -1, v)


def summarize(mode, arr, n_updaters, rounds):
    """What a reader sees: counter, per-updater count of complete private contributions (must be a
    prefix of its rounds), partial contributions, shared block ids (-1 undefined, -2 torn)."""
    flat = dec_flat(mode, arr)
    counter = int(flat[0]) if flat[0] >= 0 else 0
    npriv = n_updaters * rounds
    p = flat[PRIV0:PRIV0 + npriv * L].reshape(npriv, L)
    ids = np.arange(1, npriv + 1)[:, None]
    ok = (p == ids)
    complete = ok.all(axis=1)
    anyset = (p >= 0).any(axis=1)
    partial = [int(i) for i in np.nonzero(anyset & ~complete)[0][:5]]
    per = complete.reshape(n_updaters, rounds)
    counts = per.sum(axis=1)
    prefix_ok = all(per[k, :counts[k]].all() for k in range(n_updaters))
    blocks = []
    for j in range(NBLK):
        b = flat[8 + j * BLK: 8 + (j + 1) * BLK]
        blocks.append(int(b[0]) if (b == b[0]).all() else -2)
    return {"counter": counter, "counts": [int(c) for c in counts], "prefix_ok": bool(prefix_ok), "partial": partial,
            "blocks": blocks}


# ---- independent readers / paths --------------------------------------------------------------

def tile_path(base, scheme, pos, ext):
    n, x, y = pos
    if scheme == "LXY":
        return os.path.join(base, "L%dX%dY%d.%s" % (n, x, y, ext))
    return os.path.join(base, str(n), str(y), "%d_%d.%s" % (y, x, ext))


def read_raw(path, ext):
    if ext == "npy":
        return np.load(path)
    if ext == "fits":
        from astropy.io import fits
        with fits.open(path) as h:
            return np.array(h[0].data)
    from PIL import Image as PILImage
    with PILImage.open(path) as im:
        im.load()
        return np.asarray(im)


# ---- the stress itself (isolated interpreter) -------------------------------------------------

def _updater(k, cfg, pio, barrier, logdir, inside_evt=None, fast_sleeps=None):
    import json
    import random
    import traceback
    from toasty.pyramid import PyramidIO, Pos
    from toasty.image import Image, ImageMode
    mode = cfg["mode"]
    rounds = cfg["rounds"]
    n_up = cfg["n_updaters"]
    rng = random.Random(cfg["seed"] * 1000 + k)
    imode = ImageMode.F32 if mode == "F32" else ImageMode.RGBA
    auto = cfg.get("open") == "auto"
    if cfg["own_pio"] and not auto:
        pio = PyramidIO(cfg["workdir"], scheme=cfg["scheme"], default_format=cfg["pio_format"])
    pos = Pos(*cfg["pos"])
    log = []
    status = "ok"
    hold_s = cfg.get("hold_ms", 0) / 1000.0
    fast = None
    try:
        barrier.wait(60)
        if hold_s and k > 0:
            # waiter: start when the holder is inside its critical section, with a fast clock
            if not inside_evt.wait(60):
                raise RuntimeError("checker: the holder never got inside")
            fast = {"factor": cfg["clock_factor"], "t_real": _real_monotonic()}
            install_fast_clock(cfg["clock_factor"], fast_sleeps)
            fast["t_fast"] = time.monotonic()
        for r in range(rounds):
            if cfg["delay_ms"]:
                _real_sleep(rng.random() * cfg["delay_ms"] / 1000.0)
            null_first = rng.random() < 0.25
            for what in (("null", "real") if null_first else ("real",)):
                phase = "open"
                try:
                    if auto:
                        # this updater opens the EXISTING pyramid the way the command-line tools do -- no default_format:
                        # the format is the pyramid's own -- and it does so now, while other updaters may be inside
                        pio = PyramidIO(cfg["workdir"], scheme=cfg["scheme"])
                    phase = "acquire+read"
                    with pio.update_image(pos, masked_mode=imode, default="masked") as basis:
                        phase = "inside"
                        t_in = _real_monotonic()
                        arr = np.array(basis.asarray())
                        snap = summarize(mode, arr, n_up, rounds)
                        snap.update({"k": k, "r": r, "what": what, "t_in": t_in})
                        if auto:
                            snap["opened_as"] = pio.get_default_format()
                        if hold_s and k == 0 and r == 0 and what == "real":
                            inside_evt.set()
                            _real_sleep(hold_s)          # the slow holder: a long time between read and write
                        if mode == "F32":
                            src = np.full((256, 256), np.nan, np.float32)
                        else:
                            src = np.zeros((256, 256, 4), np.uint8)
                        if what == "real":
                            sf = src.reshape(-1) if mode == "F32" else src.reshape(-1, 4)
                            me = cid(k, r, rounds)
                            sf[0] = enc(mode, snap["counter"] + 1)
                            i0 = PRIV0 + (me - 1) * L
                            sf[i0:i0 + L] = enc(mode, me)
                            if cfg["regions"] == "overlap":
                                j = r % NBLK
                                sf[8 + j * BLK: 8 + (j + 1) * BLK] = enc(mode, me)
                        img = Image.from_array(src)
                        img.update_into_maskable_buffer(basis, slice(None), slice(None), slice(None), slice(None))
                        snap["t_out"] = _real_monotonic()
                        phase = "write+release"
                    if fast is not None and "waited_fast_s" not in fast:
                        # how long the first acquisition took on this process' (accelerated) clock
                        fast["waited_fast_s"] = time.monotonic() - fast["t_fast"]
                        fast["waited_real_s"] = _real_monotonic() - fast["t_real"]
                        snap["first_wait"] = {"fast_clock_s": fast["waited_fast_s"], "real_s": fast["waited_real_s"]}
                    log.append(snap)
                except Exception as e:
                    log.append({"k": k, "r": r, "what": what, "error": "%s: %s" % (type(e).__name__, e), "phase": phase,
                                "tb": traceback.format_exc().strip().splitlines()[-4:]})
                    if hold_s and k == 0 and r == 0 and what == "real":
                        inside_evt.set()                 # never leave the waiters blocked
    except BaseException as e:
        status = "%s: %s" % (type(e).__name__, e)
    with open(os.path.join(logdir, "u%d.json" % k), "w") as f:
        json.dump({"status": status, "log": log}, f)


def stress(cfg):
    import json
    import multiprocessing as mp
    import warnings
    warnings.simplefilter("ignore")
    from toasty.pyramid import PyramidIO
    base = cfg["workdir"]
    os.makedirs(base, exist_ok=True)
    logdir = os.path.join(base, "_logs")
    os.makedirs(logdir, exist_ok=True)

    delay = cfg["delay_ms"] / 1000.0
    orig_read = PyramidIO.read_image
    calls = mp.Value("i", 0)

    def slow_read(self, *a, **kw):
        res = orig_read(self, *a, **kw)
        with calls.get_lock():
            calls.value += 1
        if delay:
            _real_sleep(delay)
        return res
    PyramidIO.read_image = slow_read      # harness-side widening of the read -> write window

    if cfg.get("layout"):
        prepare_layout(base, cfg)
    pio = PyramidIO(base, scheme=cfg["scheme"], default_format=cfg["pio_format"])
    ctxm = mp.get_context("fork")
    barrier = ctxm.Barrier(cfg["n_updaters"])
    inside_evt = ctxm.Event()
    fast_sleeps = ctxm.Value("i", 0)
    procs = [ctxm.Process(target=_updater, args=(k, cfg, pio, barrier, logdir, inside_evt, fast_sleeps)) for k in range(cfg["n_updaters"])]
    t0 = time.time()
    for p in procs:
        p.start()
    for p in procs:
        p.join()
    secs = time.time() - t0
    exitcodes = [p.exitcode for p in procs]

    logs = []
    statuses = []
    for k in range(cfg["n_updaters"]):
        try:
            with open(os.path.join(logdir, "u%d.json" % k)) as f:
                d = json.load(f)
            statuses.append(d["status"])
            logs.extend(d["log"])
        except Exception as e:
            statuses.append("no log: %s" % e)
    ext = cfg["pio_format"]
    path = tile_path(base, cfg["scheme"], cfg["pos"], ext)
    final = None
    final_err = None
    try:
        final = summarize(cfg["mode"], read_raw(path, ext), cfg["n_updaters"], cfg["rounds"])
    except Exception as e:
        final_err = "%s: %s" % (type(e).__name__, e)
    tile_files = []
    for root, _d, files in os.walk(base):
        if root.startswith(logdir):
            continue
        tile_files.extend(os.path.relpath(os.path.join(root, f), base) for f in files)
    # every file that belongs to the updated tile (same directory, same stem): the tile file itself, lock files, and any
    # sibling in another format
    stem = os.path.basename(tile_path(base, cfg["scheme"], cfg["pos"], "x"))[:-1]
    siblings = sorted(f for f in tile_files if os.path.dirname(os.path.join(base, f)) == os.path.dirname(path)
                      and os.path.basename(f).startswith(stem))
    return {"exitcodes": exitcodes, "statuses": statuses, "logs": logs, "final": final, "final_err": final_err,
            "secs": secs, "read_calls": calls.value, "files": sorted(tile_files), "fast_clock_sleeps": fast_sleeps.value,
            "tile_siblings": siblings, "tile_file": os.path.relpath(path, base)}


def raw_tile(mode):
    """A fully defined 256x256 tile of the mode (content of the tiles that exist before the updaters start)."""
    if mode == "F32":
        return np.full((256, 256), 7.0, np.float32)
    a = np.full((256, 256, 4), 255, np.uint8)
    a[..., 0] = 7
    return a


def write_raw(path, ext, arr):
    os.makedirs(os.path.dirname(path), exist_ok=True)
    if ext == "npy":
        np.save(path, arr)
    elif ext == "fits":
        from astropy.io import fits
        fits.writeto(path, arr, overwrite=True)
    else:
        from PIL import Image as PILImage
        PILImage.fromarray(arr).save(path, format="PNG")


def prepare_layout(base, cfg):
    """Build the pyramid that exists before the updaters start (harness side, plain codecs; nothing of toasty):
      existing   [n,x,y]  a tile of the pyramid, in the pyramid's format (this is what makes it an existing <format> pyramid)
      other_lock [n,x,y]  the lock file of ANOTHER tile: an updater of that tile is inside its critical section for the whole
                          run (or a crashed run left the file behind); null = none
      stray      [n,x,y,ext] a non-image file that sits among the tiles (e.g. '3_1.txt'); null = none
      dir_order  'target_first' | 'existing_first'  order in which the directories of the updated tile and of the existing
                          tile are created;  lock_first (bool): the lock / stray files are created before the existing tile
    Several layouts are run because directory iteration order is file-system specific (hash of the name, or creation
    order): in some of them a scan of the directory tree meets a lock file before it meets a tile."""
    lay, ext, scheme = cfg["layout"], cfg["pio_format"], cfg["scheme"]
    tgt = tile_path(base, scheme, cfg["pos"], ext)
    ex = tile_path(base, scheme, lay["existing"], ext)
    dirs = [os.path.dirname(tgt), os.path.dirname(ex)]
    if lay.get("dir_order") == "existing_first":
        dirs.reverse()
    for d in dirs:
        os.makedirs(d, exist_ok=True)

    def others():
        if lay.get("other_lock"):
            pth = tile_path(base, scheme, lay["other_lock"], ext) + ".lock"
            os.makedirs(os.path.dirname(pth), exist_ok=True)
            open(pth, "w").close()
        if lay.get("stray"):
            pth = tile_path(base, scheme, lay["stray"][:3], lay["stray"][3])
            os.makedirs(os.path.dirname(pth), exist_ok=True)
            with open(pth, "w") as f:
                f.write("not a tile\n")

    if lay.get("lock_first"):
        others()
    write_raw(ex, ext, raw_tile(cfg["mode"]))
    if not lay.get("lock_first"):
        others()


# ---- oracle -----------------------------------------------------------------------------------

def analyse(cfg, res):
    """-> list of (obligation, extra, message)"""
    out = []
    N, R = cfg["n_updaters"], cfg["rounds"]
    total = N * R
    bad_proc = [(k, s, e) for k, (s, e) in enumerate(zip(res["statuses"], res["exitcodes"])) if s != "ok" or e != 0]
    if bad_proc:
        out.append(("rt/update_image/updater_runs", {"detail": str(bad_proc[:3])}, "updater(s) failed: %s" % (bad_proc[:3],)))
    errs = [l for l in res["logs"] if "error" in l]
    read_errs = [l for l in errs if l.get("phase") == "acquire+read"]
    other_errs = [l for l in errs if l.get("phase") != "acquire+read"]
    if read_errs:
        out.append(("rt/update_image/reader_sees_complete_tile", {"detail": str(read_errs[0])[:600]},
                    "%d update(s) failed while reading under the lock: %s" % (len(read_errs), read_errs[0]["error"])))
    if other_errs:
        out.append(("rt/update_image/updater_runs", {"detail": str(other_errs[0])[:600]},
                    "%d update(s) raised: %s" % (len(other_errs), other_errs[0]["error"])))
    snaps = [l for l in res["logs"] if "error" not in l]
    # every contribution goes to ONE file, the tile of the pyramid's own format: no sibling of the tile in another format,
    # and every updater that opened the existing pyramid without naming a format got the pyramid's format
    foreign = [f for f in res.get("tile_siblings", []) if f != res.get("tile_file") and not f.endswith(".lock")]
    foreign_locks = [f for f in res.get("tile_siblings", []) if f.endswith(".lock") and f != res.get("tile_file", "") + ".lock"]
    opened = sorted(set(s["opened_as"] for s in snaps if "opened_as" in s))
    wrong_open = [s for s in snaps if s.get("opened_as", cfg["pio_format"]) != cfg["pio_format"]]
    if foreign or foreign_locks or wrong_open:
        d = "files of the updated tile: %s (the pyramid's tile is %s); formats under which updaters opened the %s pyramid: %s" % (
            res.get("tile_siblings"), res.get("tile_file"), cfg["pio_format"], opened)
        if wrong_open:
            d += "; e.g. updater %d round %d" % (wrong_open[0]["k"], wrong_open[0]["r"])
        out.append(("rt/update_image/one_tile_file", {"detail": d[:700], "n_updates_elsewhere": len(wrong_open)},
                    "updates of one tile went to different files / locks: " + d))
    torn = [s for s in snaps if s["partial"] or not s["prefix_ok"] or -2 in s["blocks"]]
    if torn:
        out.append(("rt/update_image/reader_sees_complete_tile", {"detail": str(torn[0])[:600]},
                    "%d reads under the lock saw a partially applied contribution, e.g. %s" % (len(torn), torn[0])))
    # critical sections (read returned .. about to write), on the system-wide monotonic clock, must be disjoint
    iv = sorted((s["t_in"], s["t_out"], s["k"], s["r"], s["what"]) for s in snaps if "t_in" in s and "t_out" in s)
    over = [(a, b) for a, b in zip(iv, iv[1:]) if b[0] < a[1] and a[2] != b[2]]
    if over:
        a, b = over[0]
        d = "updater %d round %d (%s) was inside from %.6f to %.6f s, updater %d round %d (%s) got inside at %.6f s" % (
            a[2], a[3], a[4], 0.0, a[1] - a[0], b[2], b[3], b[4], b[0] - a[0])
        out.append(("rt/update_image/critical_sections_exclusive", {"detail": d, "n_overlaps": len(over)},
                    "%d pair(s) of updates were between read and write at the same time: %s" % (len(over), d)))
    real = [s for s in snaps if s["what"] == "real"]
    final = res["final"]
    if final is None:
        out.append(("rt/update_image/no_lost_update", {"final_counter": None, "expected_counter": total, "n_missing": total,
                                                       "first_missing": [0, 0], "detail": res["final_err"]},
                    "final tile unreadable/missing: %s" % res["final_err"]))
        return out
    n_done = len(real)
    missing = []
    done = set((s["k"], s["r"]) for s in real)
    for k in range(N):
        present = final["counts"][k]
        mine = sorted(r for (kk, r) in done if kk == k)
        # private contributions of completed updates must all be there
        if present < len(mine) or not final["prefix_ok"]:
            missing.append([k, present])
    if final["counter"] != n_done or missing or final["partial"]:
        out.append(("rt/update_image/no_lost_update",
                    {"final_counter": final["counter"], "expected_counter": n_done,
                     "n_missing": int(sum(len([1 for (kk, r) in done if kk == k]) - final["counts"][k] for k in range(N))),
                     "first_missing": missing[0] if missing else None},
                    "final tile: counter %d after %d completed updates; per-updater complete contributions %s (each ran %d rounds)"
                    % (final["counter"], n_done, final["counts"], R)))
    # total order from the counters read
    seen = sorted(s["counter"] for s in real)
    if seen != list(range(n_done)):
        from collections import Counter
        dup = [c for c, m in Counter(seen).items() if m > 1][:5]
        out.append(("rt/update_image/serial_order", {"detail": "counters read by the updates are not 0..%d; duplicates %s" % (n_done - 1, dup)},
                    "two updates read the same predecessor state (counter values %s read more than once)" % dup))
        return out
    order = sorted(real, key=lambda s: s["counter"])
    # replay in that order and check every snapshot (real and null) and the final state
    counts = [0] * N
    blocks = [-1] * NBLK
    states = []
    for s in order:
        states.append((list(counts), list(blocks)))
        counts[s["k"]] += 1
        if cfg["regions"] == "overlap":
            blocks[s["r"] % NBLK] = cid(s["k"], s["r"], R)
    states.append((list(counts), list(blocks)))
    bad = None
    for s in snaps:
        c = s["counter"]
        if c < 0 or c >= len(states):
            bad = ("counter out of range", s)
            break
        ec, eb = states[c]
        if s["counts"] != ec or s["blocks"] != eb:
            bad = ("snapshot is not the state after its %d predecessors: expected counts %s blocks %s" % (c, ec, eb), s)
            break
    if bad is None:
        ec, eb = states[-1]
        if final["counts"] != ec or final["blocks"] != eb:
            bad = ("final tile is not the result of the serial order: expected counts %s blocks %s" % (ec, eb), final)
    if bad is not None:
        out.append(("rt/update_image/serial_order", {"detail": (bad[0] + " ; saw " + str(bad[1]))[:700]}, bad[0]))
    return out


# ---- scenarios ----------------------------------------------------------------------------------

def scenario(n, rounds, pio_format, mode, scheme, pos, regions, delay_ms, own_pio, seed, hold_ms=0, clock_factor=1, open="explicit", layout=None):
    return {"n_updaters": n, "rounds": rounds, "pio_format": pio_format, "mode": mode, "scheme": scheme, "pos": list(pos),
            "regions": regions, "delay_ms": delay_ms, "own_pio": own_pio, "seed": seed, "hold_ms": hold_ms, "clock_factor": clock_factor,
            "open": open, "layout": layout}


def auto_format_scenarios(ctx, s):
    """Updaters that open an EXISTING npy / fits pyramid without naming its format (``PyramidIO(dir)``, as the command-line
    tools do), anew before every update, while other updaters hold the tile's lock and while the lock file of another tile
    and / or a stray non-image file sit in the pyramid.  'Every contribution is in the final tile' is about the pyramid's
    tile file, whatever else lies in the directory.  Both placements of (existing tile, other lock) over two row
    directories x both creation orders, the same across two levels, and the flat LXY scheme."""
    def lay(existing, other_lock, dir_order, lock_first, stray=None):
        return {"existing": list(existing), "other_lock": list(other_lock) if other_lock else None, "stray": stray,
                "dir_order": dir_order, "lock_first": lock_first}
    out = []
    i = 0
    # rows 1/0 and 1/1: the updated tile (1,0,1) is in row 1; the existing tile in row 0 or in row 1
    for existing, other in (((1, 0, 0), (1, 1, 1)), ((1, 1, 1), (1, 1, 0))):
        for order in ("target_first", "existing_first"):
            fmt, mode = (("npy", "F32"), ("npy", "RGBA"), ("fits", "F32"), ("npy", "RGBA"))[i % 4]
            out.append(scenario(3, 6, fmt, mode, "L/Y/YX", (1, 0, 1), "overlap", 3, True, s + 200 + i, open="auto",
                                layout=lay(existing, other, order, i % 2 == 1)))
            i += 1
    # two levels: existing tile at level 2 / updated tile at level 1 and the other way round; lock of a tile of a third level
    out.append(scenario(3, 6, "npy", "RGBA", "L/Y/YX", (1, 1, 0), "disjoint", 3, True, s + 210, open="auto",
                        layout=lay((2, 3, 3), (0, 0, 0), "existing_first", True)))
    out.append(scenario(3, 6, "npy", "F32", "L/Y/YX", (2, 1, 2), "overlap", 3, True, s + 211, open="auto",
                        layout=lay((1, 0, 0), (3, 4, 4), "target_first", False, stray=[2, 3, 2, "txt"])))
    # flat scheme: one directory holds everything
    out.append(scenario(3, 6, "npy", "RGBA", "LXY", (1, 0, 1), "overlap", 3, True, s + 212, open="auto",
                        layout=lay((1, 1, 1), (0, 0, 0), "target_first", True)))
    out.append(scenario(3, 6, "fits", "F32", "LXY", (2, 2, 2), "overlap", 3, True, s + 213, open="auto",
                        layout=lay((2, 0, 1), (2, 3, 3), "target_first", False, stray=[1, 0, 0, "txt"])))
    if ctx.thorough:
        for j, (existing, other) in enumerate((((1, 0, 0), (1, 1, 1)), ((1, 1, 1), (1, 1, 0)), ((1, 1, 1), None), ((3, 0, 7), (3, 7, 0)))):
            for order in ("target_first", "existing_first"):
                out.append(scenario(8, 25, ("npy", "fits")[j % 2], "F32", "L/Y/YX", (1, 0, 1), "overlap", 2, True, s + 220 + 2 * j + (order == "existing_first"),
                                    open="auto", layout=lay(existing, other, order, bool(j % 2))))
    return out


def slow_holder_scenarios(ctx, s):
    """Updater 0 holds the lock for 2-3 s of real time; the others wait with a 60x / 600x clock."""
    out = [scenario(4, 4, "npy", "F32", "L/Y/YX", (2, 1, 3), "overlap", 2, False, s + 100, hold_ms=2500, clock_factor=60),
           scenario(3, 3, "fits", "F32", "LXY", (1, 0, 1), "disjoint", 2, True, s + 101, hold_ms=2000, clock_factor=600)]
    if ctx.thorough:
        out += [scenario(8, 6, "png", "RGBA", "L/Y/YX", (0, 0, 0), "overlap", 3, True, s + 102, hold_ms=3000, clock_factor=60),
                scenario(2, 5, "npy", "RGBA", "L/Y/YX", (6, 40, 2), "overlap", 0, False, s + 103, hold_ms=3000, clock_factor=3600)]
    return out


def build(ctx):
    s = ctx.rng.randint(0, 10 ** 6)
    if not ctx.thorough:
        return [
            scenario(2, 50, "npy", "F32", "L/Y/YX", (0, 0, 0), "disjoint", 5, False, s),
            scenario(4, 25, "npy", "F32", "L/Y/YX", (3, 5, 2), "overlap", 5, True, s + 1),
            scenario(8, 12, "npy", "F32", "LXY", (7, 100, 77), "overlap", 3, True, s + 2),
            scenario(4, 16, "fits", "F32", "L/Y/YX", (1, 1, 0), "overlap", 5, False, s + 3),
            scenario(8, 8, "fits", "F32", "L/Y/YX", (2, 3, 3), "disjoint", 2, True, s + 4),
            scenario(4, 25, "png", "RGBA", "L/Y/YX", (0, 0, 0), "overlap", 5, True, s + 5),
            scenario(2, 50, "png", "RGBA", "LXY", (4, 9, 15), "disjoint", 3, False, s + 6),
            scenario(8, 12, "npy", "RGBA", "L/Y/YX", (5, 31, 0), "overlap", 0, True, s + 7),
        ] + slow_holder_scenarios(ctx, s) + auto_format_scenarios(ctx, s)
    out = []
    i = 0
    for n in (2, 4, 8, 16):
        for (fmt, mode) in (("npy", "F32"), ("fits", "F32"), ("png", "RGBA")):
            out.append(scenario(n, 200, fmt, mode, "LXY" if i % 3 == 1 else "L/Y/YX",
                                [(0, 0, 0), (3, 5, 2), (7, 100, 77), (1, 1, 1)][i % 4],
                                "overlap" if i % 2 == 0 else "disjoint", [5, 2, 3][i % 3], i % 2 == 0, s + i))
            i += 1
    out.append(scenario(8, 200, "npy", "RGBA", "L/Y/YX", (5, 31, 0), "overlap", 0, True, s + 50))
    out.append(scenario(16, 100, "npy", "F32", "L/Y/YX", (2, 0, 3), "overlap", 0, False, s + 51))
    return out + slow_holder_scenarios(ctx, s) + auto_format_scenarios(ctx, s)


def _timeout(cfg):
    updates = cfg["n_updaters"] * cfg["rounds"] * 1.25
    return int(120 + updates * (0.5 + cfg["delay_ms"] / 1000.0) + 4 * cfg.get("hold_ms", 0) / 1000.0)


def execute(cfg, workdir):
    c = dict(cfg)
    c["workdir"] = workdir
    t = _timeout(cfg)
    status, res, secs = call_isolated(MOD, "stress", {"cfg": c}, t)
    return status, res, secs, t


def judge(cfg, status, res, t):
    if status == "timeout":
        return [("rt/update_image/terminates", {"timeout_s": t}, "lock stress did not finish within %d s" % t)]
    if status == "crash":
        return [("rt/update_image/updater_runs", {"detail": str(res)[-600:]}, "stress harness process died: %s" % str(res)[-300:])]
    return analyse(cfg, res)


def run(ctx):
    import shutil
    scs = build(ctx)
    ctx.bound("%d scenarios; updaters N in %s, rounds per updater %s; one tile per scenario; formats npy/fits (F32) and "
              "png/npy (RGBA); schemes L/Y/YX and LXY; disjoint and overlapping regions; injected read->write delay 0..5 ms"
              % (len(scs), sorted(set(c["n_updaters"] for c in scs)), sorted(set(c["rounds"] for c in scs))))
    ctx.bound("schedules: those the OS produces under a start barrier + random jitter (not every interleaving)")
    ctx.bound("slow holder: %d of the scenarios; updater 0 stays between read and write for %s ms of real time while the other "
              "updaters (started once it is inside) run with time.perf_counter/monotonic/sleep accelerated %s-fold in their "
              "processes (>= 2 minutes of lock waiting on their clock)"
              % (len([c for c in scs if c["hold_ms"]]), sorted(set(c["hold_ms"] for c in scs if c["hold_ms"])),
                 sorted(set(c["clock_factor"] for c in scs if c["hold_ms"]))))
    autos = [c for c in scs if c.get("open") == "auto"]
    ctx.bound("auto-detected format: %d of the scenarios; every updater opens the existing %s pyramid with PyramidIO(dir) (no "
              "default_format) anew before each update, while the others hold / release the tile's lock; the pyramid holds one other "
              "tile plus the lock file of another tile and / or a stray .txt file; layouts: both placements over two row directories x "
              "both directory creation orders, two levels, flat LXY scheme (directory iteration order is file-system specific)"
              % (len(autos), sorted(set(c["pio_format"] for c in autos))))
    ctx.assume("CLOCK_MONOTONIC is one clock for all processes of the machine (critical-section intervals are compared across processes)")
    ctx.assume("filelock.SoftFileLock gives mutual exclusion on a local file system (O_EXCL create)")
    ctx.assume("numpy/astropy/PIL codecs; float32 exact for integers < 2^24")

    def work(item):
        i, cfg = item
        wd = os.path.join(ctx.workdir, "s%02d" % i)
        r = execute(cfg, wd)
        shutil.rmtree(wd, ignore_errors=True)
        return i, r

    per = {}
    updates = 0
    reads = 0
    fast_sleeps = 0
    waited_ok = 0
    slow_samples = []
    with ThreadPoolExecutor(max_workers=12 if not ctx.thorough else 4) as ex:
        results = dict(ex.map(work, list(enumerate(scs))))
    for i, cfg in enumerate(scs):
        status, res, secs, t = results[i]
        ctx.case(tuple(str(cfg[k]) for k in ALLKEYS))
        if status == "ok":
            updates += len([l for l in res["logs"] if l.get("what") == "real" and "error" not in l])
            reads += res["read_calls"]
            fw = [l["first_wait"] for l in res["logs"] if "first_wait" in l]
            if cfg["hold_ms"]:
                fast_sleeps += res.get("fast_clock_sleeps", 0)
                slow_samples.append({"scenario": {k: cfg[k] for k in ALLKEYS}, "waiters_first_acquisition": fw,
                                     "fast_clock_sleep_calls": res.get("fast_clock_sleeps", 0)})
                # checker sanity: the waiters did wait (on their clock) far longer than any sensible time-out
                if fw and min(w["fast_clock_s"] for w in fw) >= 0.5 * cfg["hold_ms"] / 1000.0 * cfg["clock_factor"]:
                    waited_ok += 1
            ctx.sample({"scenario": {k: cfg[k] for k in ALLKEYS}, "updates_completed": len(res["logs"]), "secs": round(res["secs"], 1),
                        "final": res["final"] and {"counter": res["final"]["counter"], "counts": res["final"]["counts"]},
                        "lock_files_left": [f for f in res["files"] if f.endswith(".lock")]})
        for obl, extra, msg in judge(cfg, status, res, t):
            n = per.get(obl, 0)
            per[obl] = n + 1
            if n < CAP:
                w = {k: cfg[k] for k in ALLKEYS}
                w.update(extra)
                ctx.violation(obl, w, msg)
    n_slow = len([c for c in scs if c["hold_ms"]])
    ctx.monitor("slow_holder_fast_clock_sleep_calls", fast_sleeps)
    ctx.note("slow holder: %d scenarios, in %d every waiter's first acquisition took >= half the hold time on its accelerated clock; "
             "%s" % (n_slow, waited_ok, slow_samples[:2]))
    ctx.monitor("update_image_calls_completed", updates)
    ctx.monitor("read_image_wrapper_calls", reads)
    ctx.note("completed real updates: %d; reads through the delaying wrapper: %d; problems: %s" % (updates, reads, per))


def replay(obligation, witness):
    import shutil
    import tempfile
    cfg = {k: witness[k] for k in KEYS}
    cfg.update({k: witness.get(k, d) for k, d in KEYS_OPT.items()})
    wd = tempfile.mkdtemp(prefix="c10_replay_")
    try:
        status, res, secs, t = execute(cfg, os.path.join(wd, "p"))
    finally:
        shutil.rmtree(wd, ignore_errors=True)
    found = judge(cfg, status, res, t)
    same = [f for f in found if f[0] == obligation]
    if same:
        return False, "still fails: %s" % same[0][2]
    if found:
        return False, "fails differently now: %s: %s" % (found[0][0], found[0][2])
    return True, "no contribution lost in this run (%s updates; note: schedule-dependent, a pass is not a proof)" % (
        cfg["n_updaters"] * cfg["rounds"])
