"""Independent model of the TOAST pixelisation, written from the *documentation*, not from
toasty's code.  Shared by the bounded drivers rt/c04.py, rt/c05.py and rt/c12.py.

Model (module docstring of toasty/toast.py + McGlynn+ 2019 fig. 3 + property C04):

* the sphere is an octahedron (vertices: the two poles and the equator points at longitude
  0, 90, 180, 270 deg) unfolded on a square: north pole at the centre, south pole at the four
  corners, equator on the inscribed diamond; for sky maps longitude 0 runs from the centre to the
  right and 90 deg from the centre *up*; planetary maps are the same rotated by 180 deg in
  longitude (0 to the left, 90 deg downwards);
* image conventions: x grows to the right, y grows downwards, tile (n, x, y) occupies the
  lattice square [x, x+1] x [y, y+1] of the 2^n x 2^n grid, corners in the order
  upper-left, upper-right, lower-right, lower-left;
* each level-1 tile is two octahedron faces glued along the face edge that lies on the
  equator (that edge is the tile's diagonal); a tile is refined by the midpoints of its four
  great-circle edges and the midpoint of its diagonal, and the four children inherit the
  direction of the diagonal (this is the HTM 4-way split of the two triangles).

Everything is done with unit 3-vectors (x = cos lat cos lon, y = cos lat sin lon, z = sin lat)
and "midpoint" is the normalised vector sum, so no formula of toasty (lon/lat great-circle
midpoint, L'Huilier area, half-space score) is shared.
"""
import math

import numpy as np

TWOPI = 2.0 * math.pi
COORDSYS = ("astronomical", "planetary")


def ll2v(lon, lat):
    """(lon, lat) in radians -> unit vectors, shape (..., 3)."""
    lon = np.asarray(lon, dtype=float)
    lat = np.asarray(lat, dtype=float)
    cl = np.cos(lat)
    return np.stack([cl * np.cos(lon), cl * np.sin(lon), np.sin(lat)], axis=-1)


def v2ll(v):
    v = np.asarray(v, dtype=float)
    lon = np.arctan2(v[..., 1], v[..., 0]) % TWOPI
    lat = np.arctan2(v[..., 2], np.hypot(v[..., 0], v[..., 1]))
    return lon, lat


def _norm(v):
    return v / np.sqrt((v * v).sum(axis=-1, keepdims=True))


def level1_lattice(coordsys):
    """The documented layout: 3 x 3 lattice L[x, y] (x to the right, y downwards)."""
    off = {"astronomical": 0.0, "planetary": math.pi}[coordsys]
    north = np.array([0.0, 0.0, 1.0])
    south = np.array([0.0, 0.0, -1.0])

    def eq(lon_deg):
        # exact octahedron vertices (no cos(pi/2) = 6e-17 residue)
        k = int(round(lon_deg / 90.0)) % 4
        base = [(1.0, 0.0, 0.0), (0.0, 1.0, 0.0), (-1.0, 0.0, 0.0), (0.0, -1.0, 0.0)][k]
        sgn = 1.0 if off == 0.0 else -1.0
        return np.array([sgn * base[0], sgn * base[1], 0.0])

    L = np.empty((3, 3, 3))
    for cx in (0, 2):
        for cy in (0, 2):
            L[cx, cy] = south
    L[1, 1] = north
    L[2, 1] = eq(0)     # centre -> right : longitude 0 (sky) / 180 (planetary)
    L[1, 0] = eq(90)    # centre -> up
    L[0, 1] = eq(180)   # centre -> left
    L[1, 2] = eq(270)   # centre -> down
    return L


def level1_increasing(L):
    """inc[x, y] for the four level-1 tiles: True iff the diagonal lower-left -- upper-right is
    the octahedron edge on the equator (both end points have z == 0)."""
    inc = np.empty((2, 2), dtype=bool)
    for x in (0, 1):
        for y in (0, 1):
            ul, ur, lr, ll = L[x, y], L[x + 1, y], L[x + 1, y + 1], L[x, y + 1]
            d_inc = (ll[2] == 0.0 and ur[2] == 0.0)
            d_dec = (ul[2] == 0.0 and lr[2] == 0.0)
            assert d_inc != d_dec
            inc[x, y] = d_inc
    return inc


def refine(L, inc):
    """One subdivision step.  L: (m+1, m+1, 3) lattice of m x m tiles, inc: (m, m) bool.
    Returns the (2m+1, 2m+1, 3) lattice and the (2m, 2m) orientation array."""
    m = L.shape[0] - 1
    R = np.empty((2 * m + 1, 2 * m + 1, 3))
    R[0::2, 0::2] = L
    R[1::2, 0::2] = _norm(L[:-1, :] + L[1:, :])          # midpoints of horizontal edges
    R[0::2, 1::2] = _norm(L[:, :-1] + L[:, 1:])          # midpoints of vertical edges
    ul, ur, lr, ll = L[:-1, :-1], L[1:, :-1], L[1:, 1:], L[:-1, 1:]
    with np.errstate(invalid="ignore", divide="ignore"):
        c_inc = _norm(ll + ur)
        c_dec = _norm(ul + lr)
    R[1::2, 1::2] = np.where(inc[..., None], c_inc, c_dec)
    return R, np.repeat(np.repeat(inc, 2, axis=0), 2, axis=1)


_lattice_cache = {}


def lattice(coordsys, n):
    """Global lattice of level n >= 1: ((2^n+1, 2^n+1, 3) vectors, (2^n, 2^n) orientations)."""
    key = (coordsys, n)
    if key not in _lattice_cache:
        if n == 1:
            L = level1_lattice(coordsys)
            _lattice_cache[key] = (L, level1_increasing(L))
        else:
            L, inc = lattice(coordsys, n - 1)
            _lattice_cache[key] = refine(L, inc)
    return _lattice_cache[key]


def tile_quad(coordsys, n, x, y):
    """Corners (4, 3) in the order ul, ur, lr, ll and the orientation of tile (n, x, y), by
    descending the quadtree from level 1 (works for any depth)."""
    assert n >= 1 and 0 <= x < (1 << n) and 0 <= y < (1 << n)
    L = level1_lattice(coordsys)
    incs = level1_increasing(L)
    bx = (x >> (n - 1)) & 1
    by = (y >> (n - 1)) & 1
    q = np.array([L[bx, by], L[bx + 1, by], L[bx + 1, by + 1], L[bx, by + 1]])
    inc = bool(incs[bx, by])
    for lev in range(2, n + 1):
        ul, ur, lr, ll = q
        to, ri, bo, le = _norm(ul + ur), _norm(ur + lr), _norm(lr + ll), _norm(ll + ul)
        ce = _norm(ll + ur) if inc else _norm(ul + lr)
        bx = (x >> (n - lev)) & 1
        by = (y >> (n - lev)) & 1
        if (bx, by) == (0, 0):
            q = np.array([ul, to, ce, le])
        elif (bx, by) == (1, 0):
            q = np.array([to, ur, ri, ce])
        elif (bx, by) == (0, 1):
            q = np.array([le, ce, bo, ll])
        else:
            q = np.array([ce, ri, lr, bo])
    return q, inc


def quad_centre(q, inc):
    ul, ur, lr, ll = q
    return _norm(ll + ur) if inc else _norm(ul + lr)


def quad_pixel_centres(q, inc, levels=8):
    """Centres of the 2^levels x 2^levels descendants of the quad, C[row, col, 3] with
    row <-> y (downwards), col <-> x (to the right)."""
    L = np.empty((2, 2, 3))
    L[0, 0], L[1, 0], L[1, 1], L[0, 1] = q[0], q[1], q[2], q[3]
    incs = np.array([[inc]], dtype=bool)
    for _ in range(levels + 1):
        L, incs = refine(L, incs)
    c = L[1::2, 1::2]              # [x, y, 3]
    return np.transpose(c, (1, 0, 2))


def tri_area(a, b, c):
    """Spherical triangle area (Van Oosterom & Strackee), cancellation-free determinant."""
    a, b, c = np.asarray(a), np.asarray(b), np.asarray(c)
    det = np.abs((a * np.cross(b - a, c - a)).sum(axis=-1))
    den = 1.0 + (a * b).sum(axis=-1) + (b * c).sum(axis=-1) + (c * a).sum(axis=-1)
    return 2.0 * np.arctan2(det, den)


def quad_area(q, inc):
    """Area of the tile = its two triangles along its own diagonal (for the level-1 tiles the other
    diagonal would join the two poles, which are antipodal)."""
    q = np.asarray(q)
    inc = np.asarray(inc, dtype=bool)
    ul, ur, lr, ll = q[..., 0, :], q[..., 1, :], q[..., 2, :], q[..., 3, :]
    a_inc = tri_area(ul, ur, ll) + tri_area(ur, lr, ll)
    a_dec = tri_area(ul, ur, lr) + tri_area(ul, lr, ll)
    return np.where(inc, a_inc, a_dec)


def quad_inside_margin(q, p):
    """Signed angular margin (radians) of point(s) p w.r.t. the quad: the minimum over the four
    great-circle edges of the signed distance to the edge, positive inside.  The edge normal is
    a x (b - a): for the nearly parallel corners of a deep tile the plain a x b loses
    eps / |b - a| of direction, this form does not.  Orientation of the normals is fixed with the
    quad's own centroid."""
    q = np.asarray(q, dtype=float)
    p = np.asarray(p, dtype=float)
    cen = _norm(q.sum(axis=0))
    margins = []
    for k in range(4):
        a, b = q[k], q[(k + 1) % 4]
        nrm = np.cross(a, b - a)
        ln = math.sqrt(float((nrm * nrm).sum()))
        if ln == 0.0:
            continue
        nrm = nrm / ln
        if float((nrm * cen).sum()) < 0:
            nrm = -nrm
        margins.append(np.arcsin(np.clip((p * nrm).sum(axis=-1), -1.0, 1.0)))
    return np.min(np.array(margins), axis=0)


def quad_min_edge(q):
    q = np.asarray(q, dtype=float)
    return float(min(chord(q[k], q[(k + 1) % 4]) for k in range(4)))


def chord(u, v):
    d = np.asarray(u, dtype=float) - np.asarray(v, dtype=float)
    return np.sqrt((d * d).sum(axis=-1))
