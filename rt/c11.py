"""C11 (bounded run-time tier) -- the plate-carree samplers return the map pixel whose cell contains
each sky point.

Oracle (from the documented layouts, not from the samplers' arithmetic): the map is ny rows by nx
columns of equal cells; row r covers latitudes [pi/2 - (r+1) pi/ny, pi/2 - r pi/ny] (latitude +90
at the top); with u = the fraction of a turn measured *from the left edge of the image*,
column c covers u in [c/nx, (c+1)/nx]:

    plate_carree_sampler                  u = frac((pi - lon) / 2pi)    lon grows to the left, 0 at the centre
    plate_carree_zeroright_sampler        u = frac(     - lon  / 2pi)   lon grows to the left, 0 at the right edge
    plate_carree_planet_sampler           u = frac((lon + pi) / 2pi)    lon grows to the right, 0 at the centre
    plate_carree_planet_zeroleft_sampler  u = frac(       lon  / 2pi)   lon grows to the right, 0 at the left edge
    plate_carree_galactic_sampler         the first layout applied to (l, b) = own ICRS -> Galactic rotation
                                          (NGP 192.85948, +27.12825 deg, l_NCP 122.93192 deg)
    plate_carree_ecliptic_sampler         the *second* layout applied to (lambda, beta) = rotation by the mean obliquity
                                          23.4392911 deg about the equinox.  The property statement does not give a
                                          layout for this variant; "0 at the right edge" is what toasty's reference
                                          test and code path use and is recorded as an assumption.

The map holds its own flat index in every pixel (times 8 plus the colour index when it has colour
axes), so the returned value names the cell that was read; a read through a wrapped negative or
clipped index shows up as a wrong cell.  A point closer to a cell boundary than the tolerance may
resolve to either neighbour (columns cyclically: the left edge of column 0 and the right edge of
column nx-1 are the same meridian).  Tolerance (angle): 1e-12 + 4 ulp(|lon|) rad for the plain
variants (float64 reduction of an arbitrary real longitude modulo 2 pi), + 1e-6 rad for the Galactic
rotation (ICRS/FK5 frame bias and constants), + 2e-4 rad for the ecliptic one (astropy uses the
*true* ecliptic: nutation ~14 arcsec), the longitude part divided by cos(latitude in the rotated
frame).

Obligations (``<f>`` = name of the sampler factory) and witness keys
--------------------------------------------------------------------
rt/<f>/cell      the value returned for a point is not that of a cell containing it
                 {variant, ny, nx, colour, lon, lat, got:[row, col] | null, fx, fy, tol_x, tol_y, value}
rt/<f>/periodic  f(lon + 2 pi k, lat) != f(lon, lat) for a point farther than the tolerance from every boundary
                 {variant, ny, nx, colour, lon, lat, k, got, got_shifted}
rt/<f>/shape     result shape != request shape + colour axes            {variant, ny, nx, colour, request_shape, result_shape}
rt/<f>/raises    the sampler raised (e.g. IndexError = indexing outside the map)   {variant, ny, nx, colour, request_shape, error, lon, lat}

Bounds
------
quick   : plain variants: all shapes ny 1..6 x nx 1..8, 30 random shapes up to 70 x 70, (1, 1000), (1000, 1), (181, 361),
          (512, 1024); rotated variants: 14 shapes each.  Per map: every cell centre (maps <= 4096 cells), every cell-boundary
          meridian / parallel at -1e-9, -1 ulp, 0, +1 ulp, +1e-9 (<= 40 per axis, crossed), 300 random points (lon uniform in
          [-pi, pi], [0, 2 pi], [-50, 50] or +-1e6; lat uniform plus exact +-pi/2), special longitudes (0, +-pi, +-2 pi, k pi/2,
          +-1 ulp), requests of shape (a, b), (1, 1), (1, n), (n, 1), (0, 3); colour axes none / (3,) / (2, 2).
thorough: shapes ny 1..12 x nx 1..16, 600 random shapes up to 600 x 600, (2048, 4096), (3, 4097), 10000 random points per map;
          rotated variants 60 shapes.

Trusted: numpy; for the rotated variants astropy's frame rotation is *compared against*, with the
stated tolerance, an independent rotation.  Requests are 2-D arrays (the documented sampler protocol).
"""
import math

import numpy as np

TWOPI = 2 * math.pi
HALFPI = math.pi / 2
EPS = 2.220446049250313e-16
CAP = 5
CMUL = 8

VARIANTS = {
    "sky": "plate_carree_sampler",
    "zeroright": "plate_carree_zeroright_sampler",
    "planet": "plate_carree_planet_sampler",
    "zeroleft": "plate_carree_planet_zeroleft_sampler",
    "galactic": "plate_carree_galactic_sampler",
    "ecliptic": "plate_carree_ecliptic_sampler",
}
ROT_TOL = {"galactic": 1e-6, "ecliptic": 2e-4}


def _vec(lon, lat):
    cl = np.cos(lat)
    return np.stack([cl * np.cos(lon), cl * np.sin(lon), np.sin(lat)], axis=-1)


def _galactic_axes():
    d = math.pi / 180
    gz = _vec(np.float64(192.85948 * d), np.float64(27.12825 * d))
    l_ncp = 122.93192 * d
    pole = np.array([0.0, 0.0, 1.0])
    e1 = pole - float(pole @ gz) * gz
    e1 /= math.sqrt(float(e1 @ e1))
    e2 = np.cross(gz, e1)
    gx = math.cos(l_ncp) * e1 - math.sin(l_ncp) * e2
    gy = math.sin(l_ncp) * e1 + math.cos(l_ncp) * e2
    return gx, gy, gz


def _ecliptic_axes():
    e = 23.4392911 * math.pi / 180
    ex = np.array([1.0, 0.0, 0.0])
    ey = np.array([0.0, math.cos(e), math.sin(e)])
    ez = np.array([0.0, -math.sin(e), math.cos(e)])
    return ex, ey, ez


def _rotate(variant, lon, lat):
    ax = _galactic_axes() if variant == "galactic" else _ecliptic_axes()
    v = _vec(lon, lat)
    x, y, z = v @ ax[0], v @ ax[1], v @ ax[2]
    return np.arctan2(y, x), np.arctan2(z, np.hypot(x, y))


def expected_fraction(variant, lon, lat):
    """(fx, fy, tol_lon, tol_lat): position in pixel units / nx, ny not yet applied: returns u in
    [0, 1), w in [0, 1] and the angular tolerances."""
    lon = np.asarray(lon, dtype=float)
    lat = np.asarray(lat, dtype=float)
    tol_lon = 1e-12 + 4 * EPS * np.abs(lon)
    tol_lat = np.full(lat.shape, 1e-12)
    if variant in ROT_TOL:
        # the uncertainty of the input direction (float reduction of a huge longitude) and of the frame
        # definition is a small rotation of the sphere: it moves the rotated latitude by as much and the
        # rotated longitude by as much / cos(latitude')
        lon, lat = _rotate(variant, lon, lat)
        ang = tol_lon + ROT_TOL[variant]
        tol_lat = tol_lat + ang
        tol_lon = ang / np.maximum(np.cos(lat), 1e-300)
    layout = {"sky": "sky", "galactic": "sky", "zeroright": "zeroright", "ecliptic": "zeroright",
              "planet": "planet", "zeroleft": "zeroleft"}[variant]
    if layout == "sky":
        u = np.mod(math.pi - lon, TWOPI) / TWOPI
    elif layout == "zeroright":
        u = np.mod(-lon, TWOPI) / TWOPI
    elif layout == "planet":
        u = np.mod(lon + math.pi, TWOPI) / TWOPI
    else:
        u = np.mod(lon, TWOPI) / TWOPI
    u = np.where(u >= 1.0, 0.0, u)
    w = (HALFPI - lat) / math.pi
    return u, w, tol_lon, tol_lat


def make_map(ny, nx, colour):
    base = np.arange(ny * nx, dtype=np.int64).reshape(ny, nx)
    if not colour:
        return base
    ncol = int(np.prod(colour))
    assert ncol <= CMUL
    data = base[..., None] * CMUL + np.arange(ncol, dtype=np.int64)
    return data.reshape((ny, nx) + tuple(colour))


def decode(values, ny, nx, colour):
    """-> (row, col, ok) arrays over the request shape."""
    v = np.asarray(values)
    if colour:
        ncol = int(np.prod(colour))
        flat = v.reshape(v.shape[:v.ndim - len(colour)] + (ncol,))
        first = flat[..., 0]
        ok = np.all(flat == first[..., None] + np.arange(ncol), axis=-1) & (first % CMUL == 0)
        idx = first // CMUL
    else:
        idx = v
        ok = np.ones(v.shape, dtype=bool)
    ok = ok & (idx >= 0) & (idx < ny * nx)
    idx = np.where(ok, idx, 0)
    return idx // nx, idx % nx, ok


def _sampler(variant, data):
    from toasty import samplers
    return getattr(samplers, VARIANTS[variant])(data)


def judge(variant, ny, nx, colour, lon, lat, values):
    """Vectorised verdict.  Returns (bad mask, interior mask, row, col, fx, fy, tx, ty)."""
    row, col, ok = decode(values, ny, nx, colour)
    u, w, tol_lon, tol_lat = expected_fraction(variant, lon, lat)
    fx = u * nx
    fy = w * ny
    tx = tol_lon * nx / TWOPI + 4 * EPS * nx
    ty = tol_lat * ny / math.pi + 4 * EPS * ny
    okx = np.zeros(fx.shape, dtype=bool)
    for shift in (-nx, 0, nx):
        f = fx + shift
        okx |= (f >= col - tx) & (f <= col + 1 + tx)
    oky = (fy >= row - ty) & (fy <= row + 1 + ty)
    bad = ~(ok & okx & oky)
    frx = fx - np.floor(fx)
    fry = fy - np.floor(fy)
    interior = (frx > tx) & (frx < 1 - tx) & (fry > ty) & (fry < 1 - ty) & (fy > ty) & (fy < ny - ty)
    return bad, interior, row, col, fx, fy, tx, ty


class _Rep(object):
    def __init__(self, ctx):
        self.ctx = ctx
        self.n = {}

    def __call__(self, obligation, witness, message):
        k = self.n.get(obligation, 0)
        self.n[obligation] = k + 1
        if k < CAP:
            self.ctx.violation(obligation, witness, message)


def check_request(rep, variant, ny, nx, colour, samp, lon, lat, ks=(), ctx=None, tag=None):
    """One sampler call (+ shifted calls).  Returns number of points checked."""
    f = VARIANTS[variant]
    w0 = {"variant": variant, "ny": ny, "nx": nx, "colour": list(colour)}
    lon = np.asarray(lon, dtype=float)
    lat = np.asarray(lat, dtype=float)

    def call(lo):
        try:
            return samp(lo, lat), None
        except Exception as e:
            return None, e

    vals, err = call(lon)
    if err is not None:
        first = (float(lon.flat[0]), float(lat.flat[0])) if lon.size else (None, None)
        if 1 < lon.size <= 20000:      # name one point that raises on its own (for the replay)
            for a, b in zip(lon.ravel(), lat.ravel()):
                try:
                    samp(np.array([[a]]), np.array([[b]]))
                except Exception:
                    first = (float(a), float(b))
                    break
        rep("rt/%s/raises" % f, dict(w0, request_shape=list(lon.shape), error=repr(err), lon=first[0], lat=first[1]),
            "%s on a %dx%d map raised %r for a request of shape %r" % (f, ny, nx, err, lon.shape))
        return 0
    vals = np.asarray(vals)
    want = tuple(lon.shape) + tuple(colour)
    if tuple(vals.shape) != want:
        rep("rt/%s/shape" % f, dict(w0, request_shape=list(lon.shape), result_shape=list(vals.shape)),
            "%s: request shape %r, colour axes %r, result shape %r" % (f, lon.shape, tuple(colour), vals.shape))
        return 0
    if ctx is not None:
        ctx.case((variant, ny, nx, tuple(colour), tag, 0), nontrivial=lon.size > 0)
    if lon.size == 0:
        return 0
    bad, interior, row, col, fx, fy, tx, ty = judge(variant, ny, nx, colour, lon, lat, vals)
    for idx in np.argwhere(bad)[:CAP]:
        i = tuple(idx)
        rep("rt/%s/cell" % f, dict(w0, lon=float(lon[i]), lat=float(lat[i]), got=[int(row[i]), int(col[i])], fx=float(fx[i]),
                                  fy=float(fy[i]), tol_x=float(tx[i]), tol_y=float(ty[i]),
                                  value=np.asarray(vals[i]).ravel()[:4].tolist()),
            "%s, map %dx%d: point (lon %.17g, lat %.17g) lies at column coordinate %.9f, row coordinate %.9f of the documented layout "
            "but the value of cell (row %d, col %d) was returned" % (f, ny, nx, lon[i], lat[i], fx[i], fy[i], row[i], col[i]))
    for k in ks:
        lon2 = lon + TWOPI * k
        vals2, err = call(lon2)
        if err is not None:
            rep("rt/%s/raises" % f, dict(w0, request_shape=list(lon.shape), error=repr(err), lon=float(lon2.flat[0]), lat=float(lat.flat[0])),
                "%s raised %r for longitudes shifted by 2 pi * %d" % (f, err, k))
            continue
        vals2 = np.asarray(vals2)
        if tuple(vals2.shape) != want:
            rep("rt/%s/shape" % f, dict(w0, request_shape=list(lon.shape), result_shape=list(vals2.shape)), "shape changes under a longitude shift")
            continue
        if ctx is not None:
            ctx.case((variant, ny, nx, tuple(colour), tag, k))
        bad2, interior2, row2, col2, fx2, fy2, tx2, ty2 = judge(variant, ny, nx, colour, lon2, lat, vals2)
        for idx in np.argwhere(bad2)[:CAP]:
            i = tuple(idx)
            rep("rt/%s/cell" % f, dict(w0, lon=float(lon2[i]), lat=float(lat[i]), got=[int(row2[i]), int(col2[i])], fx=float(fx2[i]),
                                      fy=float(fy2[i]), tol_x=float(tx2[i]), tol_y=float(ty2[i]),
                                      value=np.asarray(vals2[i]).ravel()[:4].tolist()),
                "%s, map %dx%d: point (lon %.17g, lat %.17g) lies at column coordinate %.9f, row coordinate %.9f but cell (row %d, col %d) "
                "was returned" % (f, ny, nx, lon2[i], lat[i], fx2[i], fy2[i], row2[i], col2[i]))
        differ = (row2 != row) | (col2 != col)
        badp = differ & interior & interior2 & ~bad & ~bad2
        # two in-tolerance answers that differ although both points are interior cannot happen; a real
        # non-periodicity shows as differ & interior (of the unshifted point)
        badp |= differ & interior & ~bad
        badp &= ~bad2   # already reported as a cell failure
        for idx in np.argwhere(badp)[:CAP]:
            i = tuple(idx)
            rep("rt/%s/periodic" % f, dict(w0, lon=float(lon[i]), lat=float(lat[i]), k=int(k), got=[int(row[i]), int(col[i])],
                                          got_shifted=[int(row2[i]), int(col2[i])]),
                "%s, map %dx%d: lon %.17g and lon + 2 pi * %d give cells (%d,%d) and (%d,%d)" % (f, ny, nx, lon[i], k, row[i], col[i], row2[i], col2[i]))
    return int(lon.size) * (1 + len(ks))


def _edge_values(n, span, origin, sign, limit, rng):
    """Cell-boundary coordinates origin + sign * j * span / n (j = 0..n, at most ``limit`` of them),
    each at offsets -1e-9, -1 ulp, 0, +1 ulp, +1e-9."""
    js = list(range(n + 1))
    if len(js) > limit:
        js = sorted(set([0, 1, n - 1, n] + rng.sample(js, limit - 4)))
    out = []
    for j in js:
        b = origin + sign * j * span / n
        out += [b - 1e-9, math.nextafter(b, -math.inf), b, math.nextafter(b, math.inf), b + 1e-9]
    return out


def check_map(ctx, rep, variant, ny, nx, colour, n_random, rng, nprng):
    data = make_map(ny, nx, colour)
    try:
        samp = _sampler(variant, data)
    except Exception as e:
        rep("rt/%s/raises" % VARIANTS[variant], {"variant": variant, "ny": ny, "nx": nx, "colour": list(colour), "request_shape": None,
                                               "error": repr(e), "lon": None, "lat": None}, "building the sampler raised %r" % (e,))
        return
    rotated = variant in ROT_TOL
    npts = 0
    # (a) every cell centre, described in the *map's own* frame; for the rotated variants the request is in
    #     ICRS, so centres are only meaningful for the plain ones
    if not rotated and ny * nx <= 4096:
        cc = (np.arange(nx) + 0.5) / nx
        rr = HALFPI - (np.arange(ny) + 0.5) * math.pi / ny
        if variant == "sky":
            lonc = math.pi - cc * TWOPI
        elif variant == "zeroright":
            lonc = TWOPI - cc * TWOPI
        elif variant == "planet":
            lonc = -math.pi + cc * TWOPI
        else:
            lonc = cc * TWOPI
        LON, LAT = np.meshgrid(lonc, rr)
        npts += check_request(rep, variant, ny, nx, colour, samp, LON, LAT, ks=(1, -2), ctx=ctx, tag="centres")
        # centres must be read *exactly*: judge() already enforces it since they are interior
    # (b) cell boundaries +- {1e-9, 1 ulp, 0}
    if not rotated:
        origin = {"sky": math.pi, "zeroright": TWOPI, "planet": -math.pi, "zeroleft": 0.0}[variant]
        sign = -1.0 if variant in ("sky", "zeroright") else 1.0
        lons_b = np.array(_edge_values(nx, TWOPI, origin, sign, 8, rng))
        lats_b = np.clip(np.array(_edge_values(ny, math.pi, HALFPI, -1.0, 8, rng)), -HALFPI, HALFPI)
        LON, LAT = np.meshgrid(lons_b, lats_b)
        npts += check_request(rep, variant, ny, nx, colour, samp, LON, LAT, ks=(rng.choice([-1, 1, 3]),), ctx=ctx, tag="boundaries")
        lat_mid = nprng.uniform(-HALFPI, HALFPI, size=(3, lons_b.size))
        npts += check_request(rep, variant, ny, nx, colour, samp, np.broadcast_to(lons_b, lat_mid.shape).copy(), lat_mid, ctx=ctx, tag="lon-boundaries")
        lon_mid = nprng.uniform(-math.pi, TWOPI, size=(lats_b.size, 3))
        npts += check_request(rep, variant, ny, nx, colour, samp, lon_mid, np.broadcast_to(lats_b[:, None], lon_mid.shape).copy(), ctx=ctx, tag="lat-boundaries")
    # (c) special longitudes x a few latitudes including the poles
    sp = []
    for b in (0.0, math.pi, -math.pi, TWOPI, -TWOPI, HALFPI, -HALFPI, 3 * HALFPI, 2 * TWOPI, -3 * math.pi):
        sp += [b, math.nextafter(b, -math.inf), math.nextafter(b, math.inf)]
    sp += [5e-324, -5e-324, 1e-300, 1e15, -1e15]
    sp = np.array(sp)
    lats_s = np.array([HALFPI, -HALFPI, 0.0, math.nextafter(HALFPI, 0), -math.nextafter(HALFPI, 0), 0.3, -1.1])
    LON, LAT = np.meshgrid(sp, lats_s)
    npts += check_request(rep, variant, ny, nx, colour, samp, LON, LAT, ctx=ctx, tag="special")
    # (d) random points, several longitude regimes, several request shapes
    shapes = [(7, 5), (1, 1), (1, 9), (9, 1), (0, 3)]
    per = max(1, n_random // 4)
    for regime in range(4):
        if regime == 0:
            lon = nprng.uniform(-math.pi, math.pi, size=per)
        elif regime == 1:
            lon = nprng.uniform(0, TWOPI, size=per)
        elif regime == 2:
            lon = nprng.uniform(-50, 50, size=per)
        else:
            lon = nprng.uniform(-1e6, 1e6, size=per)
        lat = np.arcsin(nprng.uniform(-1, 1, size=per)) if regime % 2 else nprng.uniform(-HALFPI, HALFPI, size=per)
        lat[:2] = [HALFPI, -HALFPI][:min(2, per)]
        a = max(1, int(math.sqrt(per)))
        b = per // a
        npts += check_request(rep, variant, ny, nx, colour, samp, lon[:a * b].reshape(a, b), lat[:a * b].reshape(a, b),
                              ks=(rng.choice([-7, -1, 1, 2, 100]),), ctx=ctx, tag="random%d" % regime)
    for shp in shapes:
        lon = nprng.uniform(-10, 10, size=shp)
        lat = nprng.uniform(-HALFPI, HALFPI, size=shp)
        npts += check_request(rep, variant, ny, nx, colour, samp, lon, lat, ctx=ctx, tag="shape%dx%d" % shp)
    return npts


def _shapes(ctx, rotated):
    rng = ctx.rng
    if ctx.thorough:
        small = [(ny, nx) for ny in range(1, 13) for nx in range(1, 17)]
        rnd = [(rng.randint(1, 600), rng.randint(1, 600)) for _ in range(600)]
        big = [(1, 1000), (1000, 1), (181, 361), (512, 1024), (2048, 4096), (3, 4097)]
        nrot = 60
    else:
        small = [(ny, nx) for ny in range(1, 7) for nx in range(1, 9)]
        rnd = [(rng.randint(1, 70), rng.randint(1, 70)) for _ in range(30)]
        big = [(1, 1000), (1000, 1), (181, 361), (512, 1024)]
        nrot = 14
    if rotated:
        fixed = [(1, 1), (1, 2), (2, 1), (2, 4), (3, 5), (5, 3), (1, 7), (7, 1), (18, 36), (181, 361)]
        return fixed + [(rng.randint(1, 40), rng.randint(1, 80)) for _ in range(max(0, nrot - len(fixed)))]
    return small + rnd + big


def run(ctx):
    rep = _Rep(ctx)
    n_random = 10000 if ctx.thorough else 300
    nprng = np.random.default_rng(ctx.seed)
    ctx.bound("plain variants (sky, zero-right, planet, zero-left): map shapes %s; rotated variants (galactic, ecliptic): %d shapes"
              % ("ny 1..12 x nx 1..16, 600 random <= 600x600, (1,1000), (1000,1), (181,361), (512,1024), (2048,4096), (3,4097)" if ctx.thorough
                 else "ny 1..6 x nx 1..8, 30 random <= 70x70, (1,1000), (1000,1), (181,361), (512,1024)", 60 if ctx.thorough else 14))
    ctx.bound("per map: all cell centres (maps <= 4096 cells), cell boundaries at -1e-9/-1ulp/0/+1ulp/+1e-9 (<= 8 per axis, crossed, and "
              "against random coordinates), 35 special longitudes (0, +-pi, +-2pi, k pi/2, +-1ulp, denormals, 1e15) x poles/equator, %d random "
              "points with lon in [-pi,pi] / [0,2pi] / [-50,50] / [-1e6,1e6], latitudes incl. exact +-pi/2; longitude shifts 2 pi k, "
              "k in {-7,-2,-1,1,2,3,100}; request shapes (a,b), (1,1), (1,9), (9,1), (0,3); colour axes none, (3,), (2,2)" % n_random)
    ctx.bound("tolerance: a point within 1e-12 + 4 ulp(|lon|) rad (+1e-6 rad galactic, +2e-4 rad ecliptic, / cos(lat')) of a cell boundary may "
              "resolve to either adjacent cell; a 'case' is one sampler call on an array of points")
    ctx.assume("plate_carree_ecliptic_sampler: layout '0 at the right edge, longitude to the left' taken from toasty's reference test/code "
               "path (the property statement names no layout for it)")
    ctx.assume("own ICRS->Galactic rotation (NGP 192.85948,+27.12825, l_NCP 122.93192) and mean-obliquity ecliptic rotation agree with "
               "astropy's frames within 1e-6 / 2e-4 rad")
    colours = [(), (3,), (2, 2)]
    k = 0
    total_points = 0
    for variant in ("sky", "zeroright", "planet", "zeroleft", "galactic", "ecliptic"):
        rotated = variant in ROT_TOL
        for (ny, nx) in _shapes(ctx, rotated):
            colour = colours[k % 3]
            k += 1
            npts = check_map(ctx, rep, variant, ny, nx, colour, n_random if ny * nx < 10 ** 6 else min(n_random, 1000), ctx.rng, nprng)
            total_points += npts or 0
            if npts and len(ctx.samples) < 6 and (ny, nx) in ((3, 5), (5, 3), (2, 4)):
                ctx.sample({"variant": variant, "ny": ny, "nx": nx, "colour": list(colour), "points": npts})
    ctx.note("%d sky points judged in all (a 'case' is one sampler call on an array of points)" % total_points)
    for obligation, n in sorted(rep.n.items()):
        if n > CAP:
            ctx.note("%s: %d failing requests met, first %d reported" % (obligation, n, CAP))


def replay(obligation, witness):
    w = witness
    variant, ny, nx, colour = w["variant"], int(w["ny"]), int(w["nx"]), tuple(w.get("colour", []))

    class _C(object):
        def __init__(self):
            self.v = []

        def violation(self, o, wit, m):
            self.v.append((o, m))

    c = _C()
    rep = _Rep(c)
    samp = _sampler(variant, make_map(ny, nx, colour))
    if obligation.endswith("/shape"):
        shp = tuple(w["request_shape"])
        rs = np.random.default_rng(0)
        check_request(rep, variant, ny, nx, colour, samp, rs.uniform(-10, 10, size=shp), rs.uniform(-HALFPI, HALFPI, size=shp), ks=(1,))
    elif w.get("lon") is None:
        return True, "no point recorded; the sampler can be built now"
    else:
        ks = (int(w["k"]),) if "k" in w else ()
        check_request(rep, variant, ny, nx, colour, samp, np.array([[float(w["lon"])]]), np.array([[float(w["lat"])]]), ks=ks)
    if c.v:
        return False, "; ".join("%s: %s" % v for v in c.v[:2])
    return True, "the recorded request now satisfies the property"
