"""C01 — bounded run-time driver: cascade walk, serial and with worker processes.

Every walk is the real ``Pyramid.walk`` with a recording callback: the callback appends
``S pos t`` when it starts and ``E pos t`` when it is about to return (``t`` = CLOCK_MONOTONIC,
which is common to all processes of the machine) to a per-process log file, and sleeps in between
(and after ``E``) for a seeded, per-tile amount, so that completion order differs from dispatch order
and a parent released too early is *seen* starting before its slow child has ended.  The oracle
(rt/c13_quadtree.py) derives from the accept-set, by shift arithmetic only, which tiles are live
non-leaf tiles below the apex.

OBLIGATIONS (name — witness keys).  <m> is ``walk_serial`` for parallel == 1, else ``walk_parallel``.
  rt/<m>/callback_multiset — shape keys, parallel, delay, missing, extra, duplicated
                             (exactly once for every live non-leaf tile in the sub-pyramid, never for
                             leaves / filtered-out tiles / tiles outside the sub-pyramid)
  rt/<m>/children_first    — shape keys, parallel, delay, parent, child, gap_s
                             (callback of a tile started before the callback of a live non-leaf
                             child had ended)
  rt/<m>/returns           — shape keys, parallel, delay, watchdog_s   (walk did not return in time)
  rt/<m>/raises            — shape keys, parallel, delay, exception    (walk raised although no
                             callback raised)
  shape keys = kind ('g'|'t'|'f'), depth, accept, apex, coordsys (see rt/c13_quadtree.py);
  delay = {seed, base_ms, slow:[[n,x,y,ms]...], slow_child, slow_ms}.
  Object history (rt/c13_history.py): ONE Pyramid object lives through a program of operations (counters, leaf visits,
  walks, enumeration, subpyramid(apex), depth changes); every walk of the program is held against the statement for the
  configuration the object has at that moment.  <h> is ``history_walk_serial`` / ``history_walk_parallel``.
  rt/<h>/callback_multiset — shape keys (as constructed), program, parallel, seed, delay_ms, step, op, config, missing, extra, duplicated
  rt/<h>/children_first    — ... step, op, parent, child, gap_s
  rt/<h>/same_as_fresh     — ... step, op, history, fresh   (the walk of the object with a history vs the walk of a newly
                             built object of the same final configuration)
  rt/<h>/repeatable        — ... step, op, first_step       (the same walk twice under one configuration)
  rt/<h>/raises            — ... step, op, exception
  A history program that does not finish inside the watchdog is counted as undecided (a note), not as a violation.

BOUNDS
  quick   : serial: all shapes below.  Parallel, workers in {2,3,5,16}: every accept-set at depth 1;
            corner shapes depth 2..3; every apex of the generic depth-2 pyramid; directed "child k of
            every parent is slow" runs (k = 0..3) on full and filtered depth-2/3 pyramids; ~90 seeded
            random shapes depth 2..4; 3 runs whose callbacks outlast the 1 s queue time-outs.
  thorough: the same families to depth 5 with ~4000 seeded random shapes.
  Object history: quick: ~830 directed serial programs at depth 2 (every first operation x every apex / repetition / depth
            change, on 5 pyramid kinds) + 150 seeded random serial programs to depth 4 + 20 programs whose walks use 2/3/5
            worker processes; thorough: directed at depth 2 and 3, 1500 random, 120 with worker processes.
  Watchdog per walk: 40 s (quick) / 90 s (thorough); a normal walk takes 1-3 s.

TRUSTED: CLOCK_MONOTONIC is shared and monotone across processes; O_APPEND writes of one short line
are atomic; the OS scheduler samples only some interleavings (the delays widen, not enumerate, them).
"""
import contextlib
import io
import os
import random
import time

from rt import c13_quadtree as Q
from rt import c01_batch as B
from rt import c13_history as H

HIST = ("history_walk",)

CAP = 5
WORKERS = (2, 3, 5, 16)


# ---------------------------------------------------------------------------------------------
# isolated side

def _delay_for(delay, key):
    n, x, y = key
    r = random.Random(delay.get("seed", 0) * 7919 + n * 1000003 + x * 1009 + y)
    base = delay.get("base_ms", 0.0) / 1000.0
    pre = r.random() * base
    post = r.random() * base * 0.5
    for sn, sx, sy, ms in delay.get("slow", []):
        if (sn, sx, sy) == key:
            pre += ms / 1000.0
    k = delay.get("slow_child")
    if k is not None and n >= 1 and (y % 2) * 2 + (x % 2) == k:
        pre += delay.get("slow_ms", 0.0) / 1000.0
    return pre, post


def make_recorder(logdir, delay):
    fds = {}

    def cb(pos, *_rest):
        pid = os.getpid()
        fd = fds.get(pid)
        if fd is None:
            fd = os.open(os.path.join(logdir, "%d.log" % pid), os.O_WRONLY | os.O_CREAT | os.O_APPEND, 0o644)
            fds.clear()
            fds[pid] = fd
        key = (pos.n, pos.x, pos.y)
        pre, post = _delay_for(delay, key)
        os.write(fd, ("S %d %d %d %.9f %d\n" % (key[0], key[1], key[2], time.monotonic(), pid)).encode())
        if pre > 0:
            time.sleep(pre)
        os.write(fd, ("E %d %d %d %.9f %d\n" % (key[0], key[1], key[2], time.monotonic(), pid)).encode())
        if post > 0:
            time.sleep(post)

    return cb


def read_events(logdir):
    ev = []
    for name in sorted(os.listdir(logdir)):
        if not name.endswith(".log"):
            continue
        with open(os.path.join(logdir, name)) as f:
            for line in f:
                parts = line.split()
                if len(parts) == 6:
                    ev.append([parts[0], int(parts[1]), int(parts[2]), int(parts[3]), float(parts[4]), int(parts[5])])
    return ev


def walk_case(case):
    """Run one real walk; JSON-able result.  (A case with a "program" is an object-history case.)"""
    import tempfile
    if "program" in case:
        return H.run_history(case)
    base = case.get("_dir") or tempfile.mkdtemp(prefix="c01_")
    logdir = os.path.join(base, "log_%s" % case["id"])
    os.makedirs(logdir, exist_ok=True)
    kind, depth, acc, apex, cs = Q.shape_from_witness(case)
    pyr = Q.make_pyramid(kind, depth, acc, apex, cs)
    cb = make_recorder(logdir, case.get("delay") or {})
    exc = None
    t0 = time.monotonic()
    try:
        with contextlib.redirect_stdout(io.StringIO()):
            pyr.walk(cb, parallel=case["parallel"])
    except Exception as e:
        exc = repr(e)
    t1 = time.monotonic()
    return {"events": read_events(logdir), "exception": exc, "t0": t0, "t1": t1, "main_pid": os.getpid()}


# ---------------------------------------------------------------------------------------------
# driver side

def _mode(case):
    return "walk_serial" if case["parallel"] == 1 else "walk_parallel"


def witness_of(case, **extra):
    w = {k: case[k] for k in ("kind", "depth", "accept", "apex", "coordsys", "parallel", "delay")}
    w.update(extra)
    return w


def evaluate(case, outcome, watchdog):
    """-> list of (obligation, witness, message)"""
    m = _mode(case)
    out = []
    if outcome["status"] == "timeout":
        out.append(("rt/%s/returns" % m, witness_of(case, watchdog_s=watchdog),
                    "walk(parallel=%d) had not returned after %s s" % (case["parallel"], outcome.get("secs"))))
        return out
    if outcome["status"] != "done":
        return out
    res = outcome["result"]
    if res["exception"]:
        out.append(("rt/%s/raises" % m, witness_of(case, exception=res["exception"]), "walk raised %s" % res["exception"]))
    kind, depth, acc, apex, _cs = Q.shape_from_witness(case)
    exp = Q.Expect(kind, depth, acc, apex)
    starts, ends = {}, {}
    for typ, n, x, y, t, _pid in res["events"]:
        d = starts if typ == "S" else ends
        d.setdefault((n, x, y), []).append(t)
    missing = sorted(p for p in exp.ops if p not in starts)
    extra = sorted(p for p in starts if p not in exp.ops)
    dup = sorted(p for p, ts in starts.items() if len(ts) > 1)
    if (missing and not res["exception"]) or extra or dup:
        out.append(("rt/%s/callback_multiset" % m,
                    witness_of(case, missing=[list(p) for p in missing[:8]], extra=[list(p) for p in extra[:8]], duplicated=[list(p) for p in dup[:8]]),
                    "callbacks: %d distinct tiles, %d expected; missing %s extra %s duplicated %s" % (len(starts), len(exp.ops), missing[:4], extra[:4], dup[:4])))
    for p, ts in starts.items():
        if p not in exp.ops:
            continue
        s = min(ts)
        for c in exp.live_nonleaf_children(p):
            if c in ends:
                e = min(ends[c])
                if e > s:
                    out.append(("rt/%s/children_first" % m, witness_of(case, parent=list(p), child=list(c), gap_s=round(e - s, 6)),
                                "callback of %s started %.4f s before the callback of its live child %s had ended" % (p, e - s, c)))
            elif c in starts:
                out.append(("rt/%s/children_first" % m, witness_of(case, parent=list(p), child=list(c), gap_s=None),
                            "callback of %s started while the callback of its live child %s had not ended" % (p, c)))
    return out


def _case(kind, depth, accept, apex, parallel, delay, coordsys="astronomical"):
    c = Q.shape_witness(kind, depth, accept, apex, coordsys)
    c["parallel"] = parallel
    c["delay"] = delay
    return c


def build_cases(rng, thorough):
    """Parallel cases (parallel filled in), deterministic given rng.  Returns (cases, bounds)."""
    cases, bounds = [], []
    k = [0]

    def par():
        k[0] += 1
        return WORKERS[k[0] % len(WORKERS)]

    def dl(base=3.0, **kw):
        d = {"seed": rng.randrange(10 ** 6), "base_ms": base, "slow": [], "slow_child": None, "slow_ms": 0.0}
        d.update(kw)
        return d

    # every accept-set at depth 1
    for mask in range(16):
        acc = [p for i, p in enumerate(Q.level_positions(1)) if (mask >> i) & 1]
        cases.append(_case("f", 1, acc, None, par(), dl()))
    bounds.append("parallel: all 16 accept-sets at depth 1")
    # trivial pyramids: depth 0, apex at depth (no operation at all -> must return without work)
    for kind in "gt":
        cases.append(_case(kind, 0, [], None, par(), dl()))
        cases.append(_case(kind, 2, [], (2, 3, 1), par(), dl()))
    # corner shapes
    cmax = 4 if thorough else 3
    for depth in range(2, cmax + 1):
        for kind, d, acc, apex in Q.corner_shapes(depth):
            cases.append(_case(kind, d, acc, apex, par(), dl()))
    bounds.append("parallel: corner shapes (see C13) at depth 2..%d; depth-0 pyramids; apex at the pyramid depth" % cmax)
    # every apex of a generic / TOAST depth-2 pyramid
    for apex in Q.all_positions(2):
        cases.append(_case("g", 2, [], apex, par(), dl()))
    for apex in Q.all_positions(1):
        cases.append(_case("t", 2, [], apex, par(), dl()))
    bounds.append("parallel: every apex of the generic depth-2 pyramid, every apex n <= 1 of the TOAST depth-2 pyramid")
    # directed: child k of every parent is slow
    dmax = 4 if thorough else 3
    for depth in range(2, dmax + 1):
        for kc in range(4):
            for kind in ("g", "f"):
                acc = Q.random_accept(rng, depth, 0.85) if kind == "f" else []
                for w in ((2, 16) if not thorough else WORKERS):
                    cases.append(_case(kind, depth, acc, None, w, dl(1.0, slow_child=kc, slow_ms=25.0 if depth < 4 else 12.0)))
    bounds.append("parallel: directed schedules 'child k (k=0..3) of every parent is 12-25 ms slower than its siblings' on generic "
                  "and filtered pyramids of depth 2..%d" % dmax)
    # random shapes
    n_rand = 4000 if thorough else 90
    dchoices = [2, 3, 3, 4, 4, 5] if thorough else [2, 3, 3, 4]
    for _ in range(n_rand):
        depth = rng.choice(dchoices)
        kind = rng.choice("gtfff")
        if kind == "t" and depth > 4:
            depth = 4
        acc = Q.random_accept(rng, depth) if kind == "f" else []
        apex = Q.random_apex(rng, depth, acc, kind)
        if apex is not None and apex[0] == depth and rng.random() < 0.7:
            apex = Q.anc(apex, rng.randint(0, max(0, depth - 1)))
        exp_ops = len(Q.Expect(kind, depth, acc, apex).ops)
        base = 4.0 if exp_ops < 60 else 1.5
        slow = []
        if exp_ops and rng.random() < 0.6:
            ops = sorted(Q.Expect(kind, depth, acc, apex).ops)
            for p in rng.sample(ops, min(len(ops), rng.randint(1, 3))):
                slow.append([p[0], p[1], p[2], rng.choice([20.0, 40.0, 80.0])])
        cases.append(_case(kind, depth, acc, apex, par(), dl(base, slow=slow), rng.choice(["astronomical", "planetary"])))
    bounds.append("parallel: %d seeded random shapes (depth in %s, generic/TOAST/filtered, random apex, 0-3 tiles slowed by 20-80 ms, "
                  "per-tile jitter up to 4 ms before and 2 ms after completion)" % (n_rand, sorted(set(dchoices))))
    # callbacks that outlast the 1 s queue time-outs of dispatcher and workers
    for i in range(6 if thorough else 3):
        depth = 2
        kind = "gf"[i % 2]
        acc = Q.random_accept(rng, depth, 0.8) if kind == "f" else []
        ops = sorted(Q.Expect(kind, depth, acc, None).ops)
        slow = [[p[0], p[1], p[2], 1300.0] for p in ops if p[0] == 1][: 1 + i % 2]
        cases.append(_case(kind, depth, acc, None, (2, 3, 5)[i % 3], dl(2.0, slow=slow)))
    bounds.append("parallel: %d runs in which one or two level-1 callbacks take 1.3 s, so that the dispatcher's and the idle workers' "
                  "1 s queue time-outs fire while work is outstanding" % (6 if thorough else 3))
    for i, c in enumerate(cases):
        c["id"] = i
    return cases, bounds


def run(ctx):
    thorough = ctx.thorough
    watchdog = 90 if thorough else 40
    cases, bounds = build_cases(ctx.rng, thorough)
    reported = {}

    def report(viols):
        for obl, w, msg in viols:
            n = reported.get(obl, 0)
            reported[obl] = n + 1
            if n < CAP:
                ctx.violation(obl, w, msg)

    # serial: every distinct shape, in-process (no worker processes involved)
    sdir = os.path.join(ctx.workdir, "serial")
    os.makedirs(sdir, exist_ok=True)
    seen = set()
    n_serial = 0
    for c in cases:
        key = Q.shape_key(c["kind"], c["depth"], [tuple(p) for p in (c["accept"] or [])], tuple(c["apex"]) if c["apex"] else None, c["coordsys"])
        if key in seen:
            continue
        seen.add(key)
        sc = dict(c)
        sc["parallel"] = 1
        sc["delay"] = {}
        sc["id"] = "s%d" % c["id"]
        sc["_dir"] = sdir
        res = walk_case(sc)
        n_serial += 1
        exp_ops = len(Q.Expect(c["kind"], c["depth"], [tuple(p) for p in (c["accept"] or [])], tuple(c["apex"]) if c["apex"] else None).ops)
        ctx.case(("serial",) + key, nontrivial=exp_ops > 0)
        report(evaluate(sc, {"status": "done", "result": res}, watchdog))
    ctx.bound("serial walk on each of the %d distinct shapes used below" % n_serial)

    # object history, serial (in-process): one object, a program of operations, every walk checked
    hrng = H.derived_rng(ctx.seed, "c01")
    hcases, hbound = H.serial_cases(hrng, "walk", thorough, 1500 if thorough else 150)
    for hc in hcases:
        ctx.case(H.case_key(hc), nontrivial=H.nontrivial(hc))
        report(H.findings(hc, H.run_history(hc), HIST))
    ctx.bound(hbound)
    # ... and with worker processes: appended to the isolated batches below
    hpar, hpbound = H.parallel_cases(hrng, "walk", thorough, 120 if thorough else 20, workers=(2, 3, 5))
    for i, hc in enumerate(hpar):
        hc["id"] = len(cases) + i
    ctx.bound(hpbound)

    # parallel
    nb = 10 if not thorough else 12
    batches = [[dict(c) for c in cases[i:i + nb]] for i in range(0, len(cases), nb)]
    batches += [[dict(c) for c in hpar[i:i + 2]] for i in range(0, len(hpar), 2)]
    results = B.dispatch("rt.c01", "walk_case", None, os.path.join(ctx.workdir, "par"), watchdog,
                         batch_size=nb, max_workers=16, max_timeouts=CAP, est_case_secs=4.0, batches=batches)
    undecided = 0
    for hc in hpar:
        o = results.get(hc["id"], {"status": "skipped"})
        if o["status"] != "done":
            undecided += 1
            continue
        ctx.case(H.case_key(hc), nontrivial=H.nontrivial(hc))
        report(H.findings(hc, o["result"], HIST))
    if undecided:
        ctx.note("%d object-history programs with worker processes did not finish inside the watchdog (or were not run): undecided" % undecided)
    skipped = 0
    for c in cases:
        o = results.get(c["id"], {"status": "skipped"})
        if o["status"] == "skipped":
            skipped += 1
            continue
        key = Q.shape_key(c["kind"], c["depth"], [tuple(p) for p in (c["accept"] or [])], tuple(c["apex"]) if c["apex"] else None, c["coordsys"])
        exp_ops = len(Q.Expect(c["kind"], c["depth"], [tuple(p) for p in (c["accept"] or [])], tuple(c["apex"]) if c["apex"] else None).ops)
        ctx.case(("par", c["parallel"], c["delay"]["seed"], c["delay"]["slow_child"]) + key, nontrivial=exp_ops > 0)
        report(evaluate(c, o, watchdog))
        if o["status"] == "done" and exp_ops > 3 and c["parallel"] > 1:
            pids = set(e[5] for e in o["result"]["events"])
            ctx.sample({"shape": {k: c[k] for k in ("kind", "depth", "apex", "parallel")}, "callbacks": len(o["result"]["events"]) // 2,
                        "worker_processes_seen": len(pids), "walk_seconds": round(o["result"]["t1"] - o["result"]["t0"], 2)})
    for b in bounds:
        ctx.bound(b)
    ctx.bound("worker counts %s rotate over the parallel cases; watchdog %d s per walk" % (list(WORKERS), watchdog))
    if skipped:
        ctx.note("%d parallel cases not run: %d walks had already hit the watchdog" % (skipped, CAP))
    for obl, n in sorted(reported.items()):
        if n > CAP:
            ctx.note("%s: %d failing cases met, first %d reported" % (obl, n, CAP))
    ctx.assume("CLOCK_MONOTONIC is shared by all processes of the machine (time.monotonic on Linux)")
    ctx.assume("the OS scheduler plus seeded per-tile delays sample interleavings; they do not enumerate them")


def replay(obligation, witness):
    if witness.get("program") is not None:
        return H.replay(obligation, witness, HIST)
    case = {k: witness.get(k) for k in ("kind", "depth", "accept", "apex", "coordsys", "parallel", "delay")}
    case["coordsys"] = case["coordsys"] or "astronomical"
    case["delay"] = case["delay"] or {}
    case["id"] = 0
    import shutil
    import tempfile
    work = tempfile.mkdtemp(prefix="c01_replay_")
    try:
        watchdog = int(witness.get("watchdog_s") or 60)
        hits = []
        for attempt in range(3):       # scheduling-dependent obligations get three tries
            case["id"] = attempt
            res = B.dispatch("rt.c01", "walk_case", [dict(case)], os.path.join(work, "r%d" % attempt), watchdog, batch_size=1, max_workers=1)
            hits = [m for o, _w, m in evaluate(case, res[attempt], watchdog) if o == obligation]
            if hits:
                return False, hits[0]
        return True, "obligation %s held in 3 runs of this case" % obligation
    finally:
        shutil.rmtree(work, ignore_errors=True)
