"""C08 bounded run-time driver: study tiling is a lossless, centred partition.

Drives the real ``toasty.study.StudyTiling`` (geometry) and ``StudyTiling.tile_image`` +
``PyramidIO`` (files) and compares with an oracle written from the property statement.

Obligations that can be reported (witness keys in brackets)
  rt/StudyTiling.__init__/smallest-pow2-centred          [kind=geom, width, height, sub]
      padded size is the smallest power of two >= 256 containing the image, depth =
      log2(size/256), offsets = (size - extent) // 2
  rt/StudyTiling.compute_for_subimage/geometry           [kind=geom, width, height, sub]
      sub-tiling shares size/depth, offsets are the parent's plus the sub-image origin
  rt/StudyTiling.generate_populated_positions/partition  [kind=geom, width, height, sub]
      rectangles lie inside their tile, map every image pixel to the slot
      ((p+g0) div 256, (p+g0) mod 256), are pairwise disjoint and cover the image
  rt/StudyTiling.count_populated_positions/count         [kind=geom, width, height, sub]
  rt/StudyTiling.image_to_tile/slot                      [kind=geom, width, height, sub]
  rt/StudyTiling.tile_image/read-back                    [kind=tile, width, height, sub, mode,
      format, content, source, seed, inf (only when set), image_format (only when set: how the image handed
      to tile_image was made, see image_formats_for; absent = Image.from_array labelled with the pyramid's
      format); + tile=[n,x,y] of the first bad tile]
      deepest-level tile files (located through the WTML Url template, decoded with
      numpy/PIL/astropy directly), put in display orientation (fits rows reversed), equal
      the image inside and are undefined (alpha 0 / NaN / 0) outside; a missing file counts
      as an all-undefined tile
  rt/StudyTiling.tile_image/raises                       [same keys as read-back]
``sub`` is null or [ix, iy, sub_width, sub_height].

Bounds
  quick   : geometry for every (a, b) and (b, a) with a in 1..1100 and b in a fixed set of
            12 corner values, 300 random sub-images; file read-back for
            {1,2,255,256,257,511,512,513}^2 x 15 (mode, lossless format) pairs, 150
            sub-image read-backs, 6 random sizes <= 1400; float images with +-inf pixels
            (inf = 'all' | 'some' | 'channel', see rt/c15_modes.random_array): 6 sizes x 3 x 3
            contents + 8 random sizes / sub-images per (float mode, format) pair.
            Image format independent of the pyramid format: every (mode, lossless tile format) pair x every
            origin of the image (from_array unlabelled = png, labelled png / npy / fits, loaded from .npy,
            from FITS for scalar modes, from PNG for colour modes) = 89 triples x 4 fixed sizes
            {1x1, 257x300, 300x131, 513x257} + 2 random sizes / sub-images (thorough: + 24).
  thorough: geometry exhaustive for all (w, h) in 1..600 x 1..600, each axis 1..2100 against
            14 sampled values of the other, 3000 random sizes (one axis <= 100000, other <= 2000), 30 random sizes <= 30000^2, 6000 random
            sub-images; read-back for every n in 1..600 as width and as height against a
            random other extent for each (mode, format) pair, the quick grid, 1500
            sub-images and 40 random sizes <= 5000.
Trusted: numpy, PIL (PNG), astropy.io.fits and np.save/np.load as codecs; the random image
contents are drawn from numpy's default_rng(seed) so a witness is replayable.
"""
import os
import shutil
import tempfile

import numpy as np

from rt import c15_modes as M

MOD = "rt.c08"
O_INIT = "rt/StudyTiling.__init__/smallest-pow2-centred"
O_SUB = "rt/StudyTiling.compute_for_subimage/geometry"
O_PART = "rt/StudyTiling.generate_populated_positions/partition"
O_COUNT = "rt/StudyTiling.count_populated_positions/count"
O_I2T = "rt/StudyTiling.image_to_tile/slot"
O_READ = "rt/StudyTiling.tile_image/read-back"
O_RAISE = "rt/StudyTiling.tile_image/raises"

COMBOS = [(m, f) for m in M.MODES for f in M.LOSSLESS[m]]
CORNERS = [1, 2, 255, 256, 257, 511, 512, 513]


# ----------------------------------------------------------------------------- oracle

def expected_geometry(width, height, sub):
    """Statement: smallest power-of-two square >= 256 containing the image, image centred
    with offsets rounded down; a sub-image sits at the parent's offset plus its origin."""
    n = max(width, height)
    p2n = 256
    while p2n < n:
        p2n <<= 1
    levels = (p2n // 256).bit_length() - 1
    gx0 = (p2n - width) // 2
    gy0 = (p2n - height) // 2
    w, h = width, height
    if sub is not None:
        gx0 += sub[0]
        gy0 += sub[1]
        w, h = sub[2], sub[3]
    return p2n, levels, gx0, gy0, w, h


def make_tiling(width, height, sub):
    from toasty.study import StudyTiling
    t = StudyTiling(width, height)
    if sub is not None:
        t = t.compute_for_subimage(*sub)
    return t


# ----------------------------------------------------------------------------- geometry

def check_geometry(width, height, sub):
    """Returns a list of (obligation, message)."""
    fails = []
    p2n, levels, gx0, gy0, W, H = expected_geometry(width, height, sub)
    try:
        t = make_tiling(width, height, sub)
        got = (t._p2n, t._tile_levels, t._img_gx0, t._img_gy0, t._width, t._height, t._tile_size)
        exp = (p2n, levels, gx0, gy0, W, H, p2n // 256)
        if got != exp:
            fails.append((O_INIT if sub is None else O_SUB,
                          "(p2n, levels, gx0, gy0, w, h, tile_size) = %r, statement gives %r" % (got, exp)))
            return fails
        if t.n_deepest_layer_tiles() != 4 ** levels:
            fails.append((O_INIT, "n_deepest_layer_tiles %r != 4**%d" % (t.n_deepest_layer_tiles(), levels)))
        items = list(t.generate_populated_positions())
        count = t.count_populated_positions()
    except Exception as e:  # the property's domain (extents >= 1) never allows an exception
        fails.append((O_PART, "raised %s: %s" % (type(e).__name__, e)))
        return fails
    if count != len(items):
        fails.append((O_COUNT, "count_populated_positions() = %r but %d rectangles generated" % (count, len(items))))
    ts = p2n // 256
    paint = W * H <= 4000000
    cover = np.zeros((H, W), np.uint8) if paint else None
    # slot of every image column / row according to the statement
    col_tile = (np.arange(W) + gx0) // 256
    col_sub = (np.arange(W) + gx0) % 256
    row_tile = (np.arange(H) + gy0) // 256
    row_sub = (np.arange(H) + gy0) % 256
    seen = set()
    area = 0
    for it in items:
        pos, w, h, ix, iy, tx, ty = it
        bad = None
        if pos.n != levels or not (0 <= pos.x < ts and 0 <= pos.y < ts):
            bad = "tile %r outside the %d x %d grid of level %d" % (tuple(pos), ts, ts, levels)
        elif not (1 <= w <= 256 and 1 <= h <= 256 and tx >= 0 and ty >= 0 and tx + w <= 256 and ty + h <= 256):
            bad = "rectangle %r not inside its tile" % (it,)
        elif not (ix >= 0 and iy >= 0 and ix + w <= W and iy + h <= H):
            bad = "rectangle %r not inside the image %dx%d" % (it, W, H)
        elif not (np.all(col_tile[ix:ix + w] == pos.x) and np.array_equal(col_sub[ix:ix + w], tx + np.arange(w))
                  and np.all(row_tile[iy:iy + h] == pos.y) and np.array_equal(row_sub[iy:iy + h], ty + np.arange(h))):
            bad = "rectangle %r does not put its pixels in slot ((p+g0) div 256, (p+g0) mod 256), g0=(%d,%d)" % (it, gx0, gy0)
        elif tuple(pos) in seen:
            bad = "tile %r generated twice" % (tuple(pos),)
        if bad:
            fails.append((O_PART, bad))
            return fails
        seen.add(tuple(pos))
        area += w * h
        if paint:
            cover[iy:iy + h, ix:ix + w] += 1
    # distinct tiles + correct slots => rectangles pairwise disjoint; equal area => cover
    if area != W * H:
        fails.append((O_PART, "rectangles hold %d pixels, image has %d" % (area, W * H)))
    elif paint and not (cover.min() == 1 and cover.max() == 1):
        yy, xx = np.argwhere(cover != 1)[0]
        fails.append((O_PART, "image pixel (x=%d, y=%d) is in %d rectangles" % (xx, yy, cover[yy, xx])))
    # image_to_tile on the corners, the tile-boundary pixels and a lattice
    xs = sorted(set([0, W - 1, W // 2] + [p for p in (255 - gx0 % 256, 256 - gx0 % 256) if 0 <= p < W]
                    + list(range(0, W, max(1, W // 7)))))
    ys = sorted(set([0, H - 1, H // 2] + [p for p in (255 - gy0 % 256, 256 - gy0 % 256) if 0 <= p < H]
                    + list(range(0, H, max(1, H // 7)))))
    try:
        for py in ys:
            for px in xs:
                r = tuple(int(v) for v in t.image_to_tile(px, py))
                e = ((px + gx0) // 256, (py + gy0) // 256, (px + gx0) % 256, (py + gy0) % 256)
                if r != e:
                    fails.append((O_I2T, "image_to_tile(%d, %d) = %r, statement gives %r" % (px, py, r, e)))
                    return fails
    except Exception as e:
        fails.append((O_I2T, "image_to_tile raised %s: %s" % (type(e).__name__, e)))
    return fails


# ----------------------------------------------------------------------------- read-back

IMAGE_FORMATS = ("default", "png", "npy", "fits", "file-npy", "file-fits", "file-png")


def image_formats_for(mode):
    """Ways of making an Image of ``mode`` whose default_format is set independently of the pyramid:
    'default'  Image.from_array(arr)                      (class default, "png")
    'png' | 'npy' | 'fits'  Image.from_array(arr, default_format=...)   (a label; any mode accepts any)
    'file-npy'   np.save + ImageLoader().load_path        (default_format "npy")
    'file-fits'  astropy writeto + ImageLoader().load_path (default_format "fits"; scalar modes)
    'file-png'   PIL save + ImageLoader().load_path       (default_format "png"; 8-bit colour)"""
    out = ["default", "png", "npy", "fits", "file-npy"]
    if mode in M.INT_MODES or mode in ("F32", "F64"):
        out.append("file-fits")
    if mode in M.COLOUR_MODES:
        out.append("file-png")
    return out


def make_image(arr, imf, base):
    from toasty.image import Image, ImageLoader
    if imf == "default":
        return Image.from_array(arr.copy())
    if imf in ("png", "npy", "fits"):
        return Image.from_array(arr.copy(), default_format=imf)
    src = tempfile.mkdtemp(prefix="src_", dir=base)
    if imf == "file-npy":
        path = os.path.join(src, "image.npy")
        np.save(path, arr)
    elif imf == "file-fits":
        from astropy.io import fits
        path = os.path.join(src, "image.fits")
        fits.PrimaryHDU(arr.copy()).writeto(path)
    elif imf == "file-png":
        from PIL import Image as PILImage
        path = os.path.join(src, "image.png")
        PILImage.fromarray(arr.copy()).save(path)
    else:
        raise ValueError(imf)
    return ImageLoader().load_path(path)     # the source directory goes away with the pyramid directory


def check_tile(spec, workdir):
    """Tile one image with the real code into a fresh pyramid and read the files back.
    Returns a list of (obligation, message, extra-witness)."""
    from toasty.builder import Builder
    from toasty.image import Image
    from toasty.pyramid import PyramidIO

    width, height, sub = spec["width"], spec["height"], spec.get("sub")
    mode, fmt = spec["mode"], spec["format"]
    p2n, levels, gx0, gy0, W, H = expected_geometry(width, height, sub)
    nprng = np.random.default_rng(spec["seed"])
    arr = M.random_array(mode, H, W, nprng, kind=spec.get("content", "mixed"), dirty=bool(spec.get("dirty")), inf=spec.get("inf"))
    base = tempfile.mkdtemp(prefix="c08_", dir=workdir)
    try:
        try:
            imf = spec.get("image_format")
            if imf is not None:
                # the image's OWN default format, varied independently of the pyramid's tile format
                image = make_image(arr, imf, base)
                # "the image" of the statement is the Image handed to tile_image
                arr = np.array(image.asarray())
                arr = arr.astype(arr.dtype.newbyteorder("="))
                if arr.shape[:2] != (H, W) or M.mode_of_array(arr) != mode:
                    raise RuntimeError("C08 harness: image made as %r has shape %r dtype %s" % (imf, arr.shape, arr.dtype))
            elif spec.get("source") == "pil" and mode in M.COLOUR_MODES:
                from PIL import Image as PILImage
                image = Image.from_pil(PILImage.fromarray(arr.copy()))
            else:
                image = Image.from_array(arr.copy(), default_format=fmt)
            pio = PyramidIO(base, default_format=fmt)
            builder = Builder(pio)
            tiling = make_tiling(width, height, sub)
            tiling.apply_to_imageset(builder.imgset)
            tiling.tile_image(image, pio)
            url = builder.imgset.url
            wtml_levels = builder.imgset.tile_levels
        except Exception as e:
            return [(O_RAISE, "%s: %s" % (type(e).__name__, e), {})]
        if wtml_levels != levels:
            return [(O_READ, "imageset tile_levels %r, statement gives %d" % (wtml_levels, levels), {})]
        bmode = M.buffer_mode(mode)
        # what the displayed deepest level must show
        if mode == "RGB":
            inner = np.concatenate([arr, np.full((H, W, 1), 255, np.uint8)], axis=2)
        else:
            inner = arr
        canvas = None
        if p2n <= 2048:
            canvas = np.full((p2n, p2n) + inner.shape[2:], M.undef_value(bmode), inner.dtype)
            canvas[gy0:gy0 + H, gx0:gx0 + W] = inner
        ts = p2n // 256
        for ty in range(ts):
            for tx in range(ts):
                path = os.path.join(base, M.tile_relpath(url, levels, tx, ty))
                # intersection of this tile with the image, in tile coordinates
                r0, r1 = max(256 * ty, gy0), min(256 * ty + 256, gy0 + H)
                c0, c1 = max(256 * tx, gx0), min(256 * tx + 256, gx0 + W)
                overlaps = r0 < r1 and c0 < c1
                if not overlaps and not os.path.exists(path):
                    continue
                if canvas is not None:
                    exp = canvas[256 * ty:256 * ty + 256, 256 * tx:256 * tx + 256]
                else:
                    exp = np.full((256, 256) + inner.shape[2:], M.undef_value(bmode), inner.dtype)
                    if overlaps:
                        exp[r0 - 256 * ty:r1 - 256 * ty, c0 - 256 * tx:c1 - 256 * tx] = inner[r0 - gy0:r1 - gy0, c0 - gx0:c1 - gx0]
                inside = np.zeros((256, 256), bool)
                if overlaps:
                    inside[r0 - 256 * ty:r1 - 256 * ty, c0 - 256 * tx:c1 - 256 * tx] = True
                try:
                    got, _hdr = M.read_tile_file(path, fmt)
                except Exception as e:
                    return [(O_READ, "tile file %s unreadable: %s" % (os.path.relpath(path, base), e), {"tile": [levels, tx, ty]})]
                extra = {"tile": [levels, tx, ty]}
                if got is None:
                    if not np.all(M.undef_mask(bmode, exp)):
                        return [(O_READ, "tile (%d,%d,%d) has defined image pixels but no file" % (levels, tx, ty), extra)]
                    continue
                if fmt == "fits":
                    got = got[::-1]  # bottom-up storage -> display orientation
                if got.shape != exp.shape or M.mode_of_array(got) != bmode:
                    return [(O_READ, "tile (%d,%d,%d) stored with shape %r dtype %s, expected %r %s" % (
                        levels, tx, ty, got.shape, got.dtype, exp.shape, exp.dtype), extra)]
                if not M.same_pixels(got[inside], exp[inside]):
                    d = np.argwhere(inside & ~_eq(got, exp))[0]
                    return [(O_READ, "tile (%d,%d,%d) display pixel (row %d, col %d) = %r, image has %r" % (
                        levels, tx, ty, d[0], d[1], got[d[0], d[1]].tolist(), exp[d[0], d[1]].tolist()), extra)]
                und = M.undef_mask(bmode, got)
                if not np.all(und[~inside]):
                    d = np.argwhere(~inside & ~und)[0]
                    return [(O_READ, "tile (%d,%d,%d) display pixel (row %d, col %d) lies outside the image but is defined: %r" % (
                        levels, tx, ty, d[0], d[1], got[d[0], d[1]].tolist()), extra)]
        return []
    finally:
        shutil.rmtree(base, ignore_errors=True)


def _eq(a, b):
    e = (a == b)
    if a.dtype.kind == "f":
        e |= np.isnan(a) & np.isnan(b)
    if e.ndim == 3:
        e = e.all(axis=2)
    return e


# ----------------------------------------------------------------------------- batches

def expand(spec):
    """A spec is one case, or a compact description of a family of geometry cases."""
    if spec["kind"] == "geomgrid":
        for w in range(spec["w0"], spec["w1"] + 1):
            for h in spec["hs"]:
                yield {"kind": "geom", "width": w, "height": h, "sub": None}
                if spec.get("transpose") and w != h:
                    yield {"kind": "geom", "width": h, "height": w, "sub": None}
    else:
        yield spec


def batch(specs, workdir):
    """Runs in an isolated interpreter.  Returns {'n': cases run, 'fails': [...]}."""
    import warnings
    warnings.simplefilter("ignore")
    n = 0
    fails = []
    for s0 in specs:
        for s in expand(s0):
            n += 1
            if s["kind"] == "geom":
                for obl, msg in check_geometry(s["width"], s["height"], s.get("sub")):
                    if len(fails) < 40:
                        fails.append({"obligation": obl, "witness": s, "message": msg})
            else:
                for obl, msg, extra in check_tile(s, workdir):
                    if len(fails) < 40:
                        w = dict(s)
                        w.update(extra)
                        fails.append({"obligation": obl, "witness": w, "message": msg})
    return {"n": n, "fails": fails}


def _key(s):
    sub = tuple(s["sub"]) if s.get("sub") else None
    if s["kind"] == "geom":
        return ("geom", s["width"], s["height"], sub)
    return ("tile", s["width"], s["height"], sub, s["mode"], s["format"], s.get("content", "mixed"), s.get("source", "array"), s["seed"],
            s.get("inf"), s.get("image_format"))


def rand_sub(rng, w, h):
    sw = rng.randint(1, w)
    sh = rng.randint(1, h)
    # favour sub-images touching tile or image borders
    ix = rng.choice([0, w - sw, rng.randint(0, w - sw)])
    iy = rng.choice([0, h - sh, rng.randint(0, h - sh)])
    return [ix, iy, sw, sh]


def run(ctx):
    rng = ctx.rng
    report = M.Reporter(ctx)
    geom_specs = []   # compact
    tile_specs = []

    def tile(w, h, sub, mode, fmt, content=None, source=None, inf=None, image_format=None):
        s = {"kind": "tile", "width": w, "height": h, "sub": sub, "mode": mode, "format": fmt,
             "content": content or rng.choice(["mixed", "mixed", "full", "blocks", "sparse"]),
             "source": source or ("pil" if mode in M.COLOUR_MODES and rng.random() < 0.3 and not image_format else "array"),
             "seed": rng.randrange(2 ** 31)}
        if mode == "RGBA" and rng.random() < 0.3:
            s["dirty"] = True
        if inf:
            s["inf"] = inf
        if image_format:
            s["image_format"] = image_format
        tile_specs.append(s)

    others = [1, 2, 255, 256, 257, 511, 512, 513, 1024, 1025, 2048, 2049]
    if not ctx.thorough:
        for lo in range(1, 1101, 50):
            geom_specs.append({"kind": "geomgrid", "w0": lo, "w1": min(lo + 49, 1100), "hs": others, "transpose": True})
        nsub_g, nsub_t, nrand_t, rand_max = 300, 150, 6, 1400
        ctx.bound("geometry: every (a,b),(b,a) with a in 1..1100, b in %r; %d random sub-images of random parents <= 3000 px" % (others, nsub_g))
    else:
        for lo in range(1, 601, 10):
            geom_specs.append({"kind": "geomgrid", "w0": lo, "w1": lo + 9, "hs": list(range(1, 601))})
        samp = others + [rng.randint(1, 2100) for _ in range(2)]
        for lo in range(601, 2101, 50):
            geom_specs.append({"kind": "geomgrid", "w0": lo, "w1": lo + 49, "hs": samp, "transpose": True})
        for _ in range(3000):
            a, b = rng.randint(1, 100000), rng.randint(1, 2000)
            if rng.random() < 0.5:
                a, b = b, a
            geom_specs.append({"kind": "geom", "width": a, "height": b, "sub": None})
        for _ in range(30):
            geom_specs.append({"kind": "geom", "width": rng.randint(1, 30000), "height": rng.randint(1, 30000), "sub": None})
        nsub_g, nsub_t, nrand_t, rand_max = 6000, 1500, 40, 5000
        ctx.bound("geometry: exhaustive (w,h) in 1..600 x 1..600; each axis 601..2100 against %r; 3000 random sizes with one axis <= 100000 and the other <= 2000, 30 with both <= 30000; %d random sub-images" % (samp, nsub_g))
    for _ in range(nsub_g):
        w = rng.choice([rng.randint(1, 3000), rng.choice(CORNERS + [1024, 1025])])
        h = rng.choice([rng.randint(1, 3000), rng.choice(CORNERS + [1024, 1025])])
        geom_specs.append({"kind": "geom", "width": w, "height": h, "sub": rand_sub(rng, w, h)})

    # read-back
    for w in CORNERS:
        for h in CORNERS:
            for mode, fmt in COMBOS:
                tile(w, h, None, mode, fmt)
    if ctx.thorough:
        for n in range(1, 601):
            for mode, fmt in COMBOS:
                tile(n, rng.randint(1, 600), None, mode, fmt)
                tile(rng.randint(1, 600), n, None, mode, fmt)
    for _ in range(nsub_t):
        mode, fmt = rng.choice(COMBOS)
        w = rng.choice(CORNERS + [rng.randint(1, 1100)])
        h = rng.choice(CORNERS + [rng.randint(1, 1100)])
        tile(w, h, rand_sub(rng, w, h), mode, fmt)
    for _ in range(nrand_t):
        mode, fmt = rng.choice(COMBOS)
        tile(rng.randint(1, rand_max), rng.randint(1, rand_max), None, mode, fmt)
    # degenerate contents: all-undefined image (no tile may be stored with defined pixels), single pixel
    for mode, fmt in COMBOS:
        tile(257, 300, None, mode, fmt, content="allundef")
        tile(300, 257, None, mode, fmt, content="single")
    # floating-point images holding infinities: +inf / -inf are pixel values like any other (the statement calls only
    # NaN / transparent "undefined"), so they must come back exactly -- whole images and whole tiles of infinity, a
    # single infinite pixel in an otherwise undefined image, infinities among finite values, one channel only
    fcombos = [(m, f) for (m, f) in COMBOS if m in M.FLOAT_MODES]
    inf_sizes = [(1, 1), (5, 3), (256, 256), (257, 300), (512, 512), (513, 257)]
    n_inf = 0
    for mode, fmt in fcombos:
        for (w, h) in inf_sizes:
            for inf in M.INF_KINDS:
                for content in ("full", "mixed", "single"):
                    tile(w, h, None, mode, fmt, content=content, inf=inf)
                    n_inf += 1
        for _ in range(40 if ctx.thorough else 8):
            w = rng.choice(CORNERS + [rng.randint(1, 1100)])
            h = rng.choice(CORNERS + [rng.randint(1, 1100)])
            tile(w, h, rand_sub(rng, w, h) if rng.random() < 0.6 else None, mode, fmt,
                 content=rng.choice(["full", "mixed", "blocks", "sparse", "single"]), inf=rng.choice(M.INF_KINDS))
            n_inf += 1
    # the image's own default format varied independently of the pyramid's tile format: the row order of a written tile is
    # a matter of the pyramid's format alone ("for top-down and bottom-up tile formats alike"), wherever the image came from
    imf_sizes = [(1, 1), (257, 300), (300, 131), (513, 257)]
    n_imf = 0
    imf_pairs = set()
    for mode, fmt in COMBOS:
        for imf in image_formats_for(mode):
            sizes = list(imf_sizes)
            for _ in range(24 if ctx.thorough else 2):
                sizes.append((rng.choice(CORNERS + [rng.randint(1, 1100)]), rng.choice(CORNERS + [rng.randint(1, 1100)])))
            for k, (w, h) in enumerate(sizes):
                sub = rand_sub(rng, w, h) if k >= len(imf_sizes) and k % 2 else None
                tile(w, h, sub, mode, fmt, content=("full" if k == 1 else None), image_format=imf)
                n_imf += 1
            imf_pairs.add((mode, fmt, imf))
    ctx.bound("read-back with the image's default format chosen independently of the pyramid's: %d cases = %d (mode, tile format, image "
              "origin) triples -- every (mode, lossless tile format) pair x {Image.from_array without format (png), from_array labelled "
              "png / npy / fits, loaded by ImageLoader from .npy, from FITS (scalar modes), from PNG (colour modes)} -- x sizes %r + %d "
              "random sizes / sub-images <= 1100 each" % (n_imf, len(imf_pairs), imf_sizes, 24 if ctx.thorough else 2))
    ctx.bound("read-back of floating-point images with infinities (defined values): %d cases = %r x sizes %r x {every defined pixel "
              "+-inf, a fifth of them, one channel of every pixel (F16x3)} x {no undefined pixel, random NaN mask, a single defined "
              "pixel} + random sizes <= 1100 and sub-images" % (n_inf, fcombos, inf_sizes))
    ctx.bound("read-back: {1,2,255,256,257,511,512,513}^2 x %d (mode, lossless format) pairs%s; %d sub-image tilings; %d random sizes <= %d; "
              "all-undefined and single-pixel images per pair" % (
                  len(COMBOS), "; every n in 1..600 as width and as height x every pair" if ctx.thorough else "", nsub_t, nrand_t, rand_max))
    ctx.assume("numpy .npy, PIL PNG and astropy.io.fits decoders return the stored arrays (used to read tiles back independently of toasty's loader)")
    ctx.assume("WTML Url template placeholders: {1}=level, {2}=x, {3}=y")

    # cost-balanced batches
    def cost(s):
        if s["kind"] == "geomgrid":
            return 0.0008 * (s["w1"] - s["w0"] + 1) * len(s["hs"]) * (2 if s.get("transpose") else 1)
        if s["kind"] == "geom":
            return 0.001 + 1e-5 * (s["width"] // 256 + 1) * (s["height"] // 256 + 1)
        p2n = expected_geometry(s["width"], s["height"], None)[0]
        return 0.01 + 0.004 * (p2n // 256) ** 2 * (3 if s["format"] == "png" else 1)

    allspecs = geom_specs + tile_specs
    rng.shuffle(allspecs)
    target = 4.0 if ctx.thorough else 1.2
    batches, cur, c = [], [], 0.0
    for s in sorted(allspecs, key=lambda s: -cost(s)):
        cur.append(s)
        c += cost(s)
        if c >= target:
            batches.append(cur)
            cur, c = [], 0.0
    if cur:
        batches.append(cur)
    results = M.fanout(MOD, "batch", [{"specs": b, "workdir": ctx.workdir} for b in batches], timeout=420)
    for b, (status, res, secs) in zip(batches, results):
        if status != "ok":
            raise RuntimeError("C08 batch %s after %.0fs: %s" % (status, secs, res))
        expected_n = sum(1 for s0 in b for _ in expand(s0))
        if res["n"] != expected_n:
            raise RuntimeError("C08 batch ran %d of %d cases" % (res["n"], expected_n))
        for s0 in b:
            for s in expand(s0):
                ctx.case(_key(s))
        for f in res["fails"]:
            report(f["obligation"], f["witness"], f["message"])
    for s in tile_specs[:3] + [g for g in geom_specs if g["kind"] == "geom"][:3]:
        ctx.sample(s)
    report.summary()


def replay(obligation, witness):
    import warnings
    warnings.simplefilter("ignore")
    if witness.get("kind") == "geom":
        fails = check_geometry(witness["width"], witness["height"], witness.get("sub"))
        msgs = ["%s: %s" % f for f in fails]
    else:
        d = tempfile.mkdtemp(prefix="c08_replay_")
        try:
            msgs = ["%s: %s" % (o, m) for o, m, _ in check_tile(witness, d)]
        finally:
            shutil.rmtree(d, ignore_errors=True)
    if msgs:
        return False, "; ".join(msgs)
    return True, "study tiling of %sx%s (sub=%s) satisfies the statement" % (witness.get("width"), witness.get("height"), witness.get("sub"))
