"""C02 bounded run-time driver: every cascaded parent is the 2x2 downsample of its children.

Runs the real ``toasty.merge.cascade_images`` (and the ``toasty cascade`` CLI) on small sparse
pyramids and checks every tile above the start level against the four child *files*,
decoded with numpy / PIL / astropy directly, with an independent block reduction written
from the statement:  display mosaic (fits tiles are stored bottom-up, so their rows are
reversed for display) with child (2x+i, 2y+j) in quadrant (i, j), missing children and
undefined child pixels undefined; float output = mean of the non-NaN pixels of each 2x2
block (NaN iff all four are); integer / colour output = mean of the four stored values cast
to the input type; the parent exists iff a child exists and the merged tile is not entirely
undefined (all NaN / all alpha 0 / all zero for integer data).

Obligations that can be reported.  Witness keys of all of them: format, mode, depth,
leaves ([[x, y, content-kind], ...]), seed, workers, filter (null|"all"|"populated"),
stale, negative, dirty, via ("api"|"cli"), leaf_writer ("toasty"|"raw"); failures on one
tile add tile=[n,x,y].
  rt/cascade_images/raises              the cascade raised
  rt/cascade_images/terminates          (parallel only) no return within the watchdog, twice
  rt/cascade_images/parent-exists-iff   existence of a tile above the start level
  rt/cascade_images/pixels              pixel values / mode / shape of a parent tile
  rt/cascade_images/serial-equals-parallel   tile set or decoded pixels differ between the
                                        serial run and a parallel run of the same pyramid
                                        [adds workers_a, workers_b]
``negative`` = the integer leaves contain negative values; ``dirty`` = transparent RGBA
leaf pixels carry non-zero colour values (for those the mean may use either the stored
colour or zero, both readings of the statement are accepted).

Bounds
  quick   : depth 1: all 16 leaf subsets x 15 (format, mode) pairs (png RGB/RGBA, jpg RGB,
            npy all 8 modes, fits U8/I16/I32/F32/F64), serial; depth 2: 120 random subsets of
            the 16 leaves + every single-leaf subset; depth 3: 24 random subsets; 24 filtered
            serial runs; 28 of the pyramids re-run with 2 and 4 workers (each in its own
            interpreter under a 90 s watchdog) and compared with the serial result; 2 CLI runs.
  thorough: depth 2: 3000 random subsets; depth 3: 400; depth 4: 12; 300 filtered; 250
            pyramids x workers {2, 3, 4}; 12 CLI runs.
  both  : colour boundary contents for png RGB/RGBA, jpg RGB, npy RGB/RGBA: depth 1: all 15
            non-empty subsets of opaque pure-black leaves (+4/40 random subsets of boundary
            kinds); depth 2: each of the 4 quartets entirely opaque black beside random other
            leaves (+3/60 pyramids whose quartets each draw one boundary kind); depth 3: 1/12 with
            a 4x4 block of opaque black leaves; 6/40 of them also re-run in parallel.  Boundary
            kinds: opaque black, opaque white, opaque black with transparent holes, an entirely
            transparent tile whose pixels carry colour (stored as a file: a child that exists
            and is entirely undefined), opaque black with transparent pixels carrying colour.
  Leaf contents: random pixels with 5-60 % undefined, fully defined, a single defined pixel,
  ~1 % defined, aligned undefined 2x2/4x4 blocks and rows, all-undefined leaves (never
  stored), faint RGBA (alpha 1..3, merges to an entirely transparent parent), faint integer
  leaves (isolated |v| <= 3, merge to an all-zero parent that must not exist), negative
  integers, stale tiles pre-existing above populated leaves.
Trusted: numpy/PIL/astropy codecs (jpg: the parent is compared with the PIL encoding of the
expected tile, falling back to a mean-absolute-difference <= 3 on smooth content).
Floating-point means are compared to 4 eps of the tile's type relative to the largest
magnitude in the block; integer and colour means exactly.
Not covered: a stale tile above the start level none of whose children exists (prior state
is not in the property's quantifier; the pinned tree leaves such a file in place).
"""
import contextlib
import hashlib
import io
import os
import shutil
import tempfile

import numpy as np

from rt import c15_modes as M

MOD = "rt.c02"
O_RAISE = "rt/cascade_images/raises"
O_TERM = "rt/cascade_images/terminates"
O_EXIST = "rt/cascade_images/parent-exists-iff"
O_PIX = "rt/cascade_images/pixels"
O_SP = "rt/cascade_images/serial-equals-parallel"

COMBOS = [("png", "RGB"), ("png", "RGBA"), ("jpg", "RGB")] + [("npy", m) for m in M.MODES] + \
         [("fits", m) for m in ("U8", "I16", "I32", "F32", "F64")]
KINDS = ["mixed", "mixed", "full", "blocks", "sparse", "single", "allundef"]
# colour data: boundary contents of the statement's "all tile contents including ... transparent
# pixels" -- defined pixels whose colour is the extreme value (opaque black / opaque white), black
# with transparent holes, and transparent pixels that still carry colour values
COLOUR_COMBOS = [("png", "RGB"), ("png", "RGBA"), ("jpg", "RGB"), ("npy", "RGB"), ("npy", "RGBA")]
COLOUR_KINDS = {"RGB": ["black", "black", "black", "white", "mixed"],
                "RGBA": ["black", "black", "black", "blackpart", "hidden", "white", "hiddenpart", "mixed"]}


# ----------------------------------------------------------------------------- leaves

def leaf_array(spec, x, y, kind):
    """Stored (file-orientation) content of leaf (x, y)."""
    nprng = np.random.default_rng([spec["seed"], x, y])
    mode = spec["mode"]
    if mode in M.COLOUR_MODES and kind in ("black", "white", "blackpart", "hidden", "hiddenpart"):
        ch = M.DTYPES[mode][1]
        a = np.zeros((256, 256, ch), np.uint8)
        if kind == "white":
            a[...] = 255
        if ch == 4:
            a[..., 3] = 255
            if kind == "blackpart":      # opaque black with transparent (and colourless) holes
                a[nprng.random((256, 256)) < float(nprng.uniform(0.05, 0.6)), 3] = 0
            elif kind == "hidden":       # entirely transparent, every pixel carries a colour
                a[..., :3] = nprng.integers(1, 256, (256, 256, 3), dtype=np.uint8)
                a[..., 3] = 0
            elif kind == "hiddenpart":   # opaque black where defined, coloured where transparent
                u = nprng.random((256, 256)) < float(nprng.uniform(0.05, 0.6))
                a[u, :3] = nprng.integers(1, 256, (int(u.sum()), 3), dtype=np.uint8)
                a[u, 3] = 0
        return a
    if spec["format"] == "jpg":
        # smooth content so that the lossy codec stays close: ramps + a colour per leaf
        r = np.linspace(30, 220, 256)[:, None] + np.zeros((1, 256))
        g = np.linspace(220, 30, 256)[None, :] + np.zeros((256, 1))
        b = np.full((256, 256), 40 + 25 * ((3 * x + 5 * y) % 8))
        return np.stack([r, g, b], axis=2).astype(np.uint8)
    return M.random_array(spec["mode"], 256, 256, nprng, kind=kind, negative=bool(spec.get("negative")), dirty=bool(spec.get("dirty")))


def raw_write(path, fmt, arr):
    os.makedirs(os.path.dirname(path), exist_ok=True)
    if fmt == "npy":
        np.save(path, arr)
    elif fmt == "fits":
        from astropy.io import fits
        fits.writeto(path, arr, overwrite=True)
    else:
        from PIL import Image as PILImage
        PILImage.fromarray(arr).save(path, format={"png": "PNG", "jpg": "JPEG"}[fmt])


def tile_path(base, fmt, n, x, y):
    return os.path.join(base, str(n), str(y), "%d_%d.%s" % (y, x, fmt))


# ----------------------------------------------------------------------------- oracle

def expected_parent(children, fmt):
    """children: list of 4 decoded child arrays (file orientation) or None, in the order
    (2x,2y), (2x+1,2y), (2x,2y+1), (2x+1,2y+1).  Returns None if no parent may exist, else
    (expected stored array, alternative array or None, tolerance array or None)."""
    present = [c for c in children if c is not None]
    if not present:
        return None
    cmode = M.mode_of_array(present[0])
    bmode = M.buffer_mode(cmode)
    dt, ch = M.DTYPES[bmode]
    shape = (512, 512) + ((ch,) if ch else ())
    bu = (fmt == "fits")
    mosaic = np.full(shape, M.undef_value(bmode), dt)
    mosaic_raw = mosaic.copy() if bmode == "RGBA" else None
    for k, c in enumerate(children):
        if c is None:
            continue
        i, j = k % 2, k // 2
        d = c[::-1] if bu else c                      # display orientation
        quad = mosaic[256 * j:256 * j + 256, 256 * i:256 * i + 256]
        if cmode == "RGB":
            quad[..., :3] = d
            quad[..., 3] = 255
            mosaic_raw[256 * j:256 * j + 256, 256 * i:256 * i + 256] = quad
        elif cmode == "RGBA":
            defined = d[..., 3] != 0
            quad[defined] = d[defined]
            mosaic_raw[256 * j:256 * j + 256, 256 * i:256 * i + 256] = d
        elif cmode == "F16x3":
            defined = ~np.any(np.isnan(d), axis=2)
            quad[defined] = d[defined]
        else:
            quad[...] = d   # NaN is "undefined" already; integer data: the stored values
    out, tol = block_reduce(mosaic, bmode)
    alt = block_reduce(mosaic_raw, bmode)[0] if mosaic_raw is not None else None
    if bmode in M.FLOAT_MODES:
        empty = bool(np.all(np.isnan(out)))
    elif bmode == "RGBA":
        empty = bool(np.all(out[..., 3] == 0))
    else:
        empty = bool(np.all(out == 0))     # integer data: zero is the undefined value
    if empty:
        return None
    if bu:
        out = out[::-1]
        tol = None if tol is None else tol[::-1]
        alt = None if alt is None else alt[::-1]
    return out, alt, tol


def block_reduce(m, bmode):
    """2x2 block reduction of a display mosaic, from the statement."""
    quads = [m[0::2, 0::2], m[0::2, 1::2], m[1::2, 0::2], m[1::2, 1::2]]
    dt = m.dtype
    if bmode in M.FLOAT_MODES:
        st = np.stack([q.astype(np.float64) for q in quads])
        ok = ~np.isnan(st)
        cnt = ok.sum(axis=0)
        tot = np.where(ok, st, 0.0).sum(axis=0)
        with np.errstate(invalid="ignore", divide="ignore"):
            mean = np.where(cnt > 0, tot / np.maximum(cnt, 1), np.nan)
        big = np.where(ok, np.abs(st), 0.0).max(axis=0)
        tol = 4 * float(np.finfo(dt).eps) * big + float(np.finfo(dt).tiny)
        return mean, tol     # kept in float64: compared with a tolerance
    tot = sum(q.astype(np.int64) for q in quads)
    mean = np.where(tot >= 0, tot // 4, -((-tot) // 4))   # cast of the exact mean truncates
    return mean.astype(dt), None


def compare_parent(got, exp, alt, tol, fmt):
    """None if the decoded parent ``got`` matches, else a message."""
    if tol is not None:
        if got.dtype.kind != "f" or got.shape != exp.shape:
            return "stored with shape %r dtype %s, expected shape %r floating point" % (got.shape, got.dtype, exp.shape)
        gn, en = np.isnan(got), np.isnan(exp)
        if not np.array_equal(gn, en):
            r = np.argwhere(gn != en)[0]
            return "stored pixel %s is %s but the block has %s defined pixel" % (
                tuple(r.tolist()), "NaN" if gn[tuple(r)] else "defined", "no" if en[tuple(r)] else "a")
        with np.errstate(invalid="ignore"):
            bad = ~en & ~(np.abs(got.astype(np.float64) - exp) <= tol)
        if bad.any():
            r = tuple(np.argwhere(bad)[0].tolist())
            return "stored pixel %s = %r, mean of the defined block pixels = %r" % (r, float(got[r]), float(exp[r]))
        return None
    if got.shape != exp.shape or got.dtype.kind != exp.dtype.kind or got.dtype.itemsize != exp.dtype.itemsize:
        return "stored with shape %r dtype %s, expected %r %s" % (got.shape, got.dtype, exp.shape, exp.dtype)
    ok = (got == exp)
    if alt is not None:
        ok |= (got == alt)
    if not ok.all():
        r = tuple(np.argwhere(~ok)[0].tolist())
        return "stored value at %s = %r, mean of the four stored values = %r" % (r, int(got[r]), int(exp[r]))
    return None


def digest(arr, hdr):
    a = np.ascontiguousarray(arr.astype(arr.dtype.newbyteorder("=")))
    h = hashlib.sha1()
    h.update(("%s%r" % (a.dtype.str, a.shape)).encode())
    h.update(a.tobytes())
    return h.hexdigest()[:16]


# ----------------------------------------------------------------------------- one cascade

def cascade_case(spec, workdir):
    """Build the leaves, run the real cascade, check every tile above the start level.
    Returns {'fails': [{obligation, message, extra}], 'digest': {"n/x/y": sha1}, 'parents': int}."""
    import warnings
    warnings.simplefilter("ignore")
    from toasty.image import Image
    from toasty.merge import averaging_merger, cascade_images
    from toasty.pyramid import PyramidIO, Pos

    fmt, depth = spec["format"], spec["depth"]
    base = tempfile.mkdtemp(prefix="c02_", dir=workdir)
    fails = []
    try:
        pio = PyramidIO(base, default_format=fmt)
        populated = set()
        for x, y, kind in spec["leaves"]:
            arr = leaf_array(spec, x, y, kind)
            p = tile_path(base, fmt, depth, x, y)
            if spec.get("leaf_writer") == "raw" or kind == "hidden":
                # (a transparent tile that carries colour values is stored as a file: it is a
                # child that exists, all of whose pixels are undefined)
                if kind == "hidden" or not np.all(M.undef_mask(spec["mode"], arr)):
                    raw_write(p, fmt, arr)
            else:
                pio.write_image(Pos(depth, x, y), Image.from_array(arr.copy(), default_format=fmt))
            if os.path.exists(p):
                populated.add((depth, x, y))
        live = set(populated)     # populated leaves and their ancestors
        for (n, x, y) in populated:
            while n > 0:
                n, x, y = n - 1, x // 2, y // 2
                live.add((n, x, y))
        if spec.get("stale"):
            # tiles already present above populated leaves (an earlier cascade): must be replaced
            nprng = np.random.default_rng([spec["seed"], 99])
            # (only where a child is certain to exist after the cascade: directly above a populated
            # leaf, or anywhere above one for floating-point data, whose merges never become
            # entirely undefined; a stale tile with no child is outside the property's domain)
            anylevel = spec["mode"] in M.FLOAT_MODES
            for (n, x, y) in sorted(live):
                if (n == depth - 1 or (anylevel and n < depth)) and nprng.random() < 0.5:
                    bm = M.buffer_mode(spec["mode"])
                    if fmt == "jpg":
                        st = nprng.integers(0, 256, (256, 256, 3), dtype=np.uint8)
                    else:
                        st = M.random_array(bm, 256, 256, nprng, kind="full")
                    raw_write(tile_path(base, fmt, n, x, y), fmt, st)
        tile_filter = None
        if spec.get("filter") == "all":
            tile_filter = lambda t: True
        elif spec.get("filter") == "populated":
            tile_filter = lambda t: tuple(t.pos) in live
        try:
            with contextlib.redirect_stdout(io.StringIO()):
                if spec.get("via") == "cli":
                    from toasty.cli import entrypoint
                    args = ["cascade", "--start", str(depth)]
                    if spec.get("workers"):
                        args += ["--parallelism", str(spec["workers"])]
                    if spec.get("cli_format", True):
                        args += ["--format", fmt]
                    entrypoint(args + [base])
                else:
                    cascade_images(pio, depth, averaging_merger, parallel=spec["workers"], tile_filter=tile_filter)
        except BaseException as e:
            if isinstance(e, KeyboardInterrupt):
                raise
            return {"fails": [{"obligation": O_RAISE, "message": "%s: %s" % (type(e).__name__, e), "extra": {}}], "digest": {}, "parents": 0}

        dig = {}
        parents = 0
        cache = {}

        def load(n, x, y):
            k = (n, x, y)
            if k not in cache:
                cache[k] = M.read_tile_file(tile_path(base, fmt, n, x, y), fmt)
            return cache[k]

        for n in range(depth - 1, -1, -1):
            for y in range(2 ** n):
                for x in range(2 ** n):
                    kids = [load(n + 1, 2 * x + (k % 2), 2 * y + (k // 2))[0] for k in range(4)]
                    got, hdr = load(n, x, y)
                    extra = {"tile": [n, x, y]}
                    e = expected_parent(kids, fmt)
                    if any(k is not None for k in kids):
                        parents += 1
                    if got is not None:
                        dig["%d/%d/%d" % (n, x, y)] = digest(got, hdr)
                    if e is None:
                        if got is not None and len(fails) < 6:
                            why = "none of its children exists" if all(k is None for k in kids) else "the merged tile is entirely undefined"
                            fails.append({"obligation": O_EXIST, "message": "tile (%d,%d,%d) exists although %s" % (n, x, y, why), "extra": extra})
                        continue
                    if got is None:
                        if len(fails) < 6:
                            fails.append({"obligation": O_EXIST, "message": "tile (%d,%d,%d) is missing although %d of its children exist and their merge has defined pixels" % (
                                n, x, y, sum(k is not None for k in kids)), "extra": extra})
                        continue
                    exp, alt, tol = e
                    if fmt == "jpg":
                        msg = compare_jpg(got, exp)
                    else:
                        msg = compare_parent(got, exp, alt, tol, fmt)
                    if msg and len(fails) < 6:
                        fails.append({"obligation": O_PIX, "message": "tile (%d,%d,%d): %s" % (n, x, y, msg), "extra": extra})
        return {"fails": fails, "digest": dig, "parents": parents}
    finally:
        shutil.rmtree(base, ignore_errors=True)


def compare_jpg(got, exp_rgba):
    from PIL import Image as PILImage
    if got.shape != (256, 256, 3) or got.dtype != np.uint8:
        return "stored with shape %r dtype %s" % (got.shape, got.dtype)
    rgb = np.ascontiguousarray(exp_rgba[..., :3])
    bio = io.BytesIO()
    PILImage.fromarray(rgb).save(bio, format="JPEG")
    bio.seek(0)
    enc = np.array(PILImage.open(bio))
    if np.array_equal(enc, got):
        return None
    mad = float(np.mean(np.abs(got.astype(float) - rgb.astype(float))))
    if mad <= 3.0:
        return None
    return "decoded parent differs from the block mean of the decoded children by %.1f levels on average" % mad


def batch(specs, workdir):
    out = []
    for s in specs:
        out.append(cascade_case(s, workdir))
    return {"results": out}


# ----------------------------------------------------------------------------- driver

def base_key(s):
    import json
    d = dict(s)
    for k in ("workers", "filter", "via", "cli_format"):
        d.pop(k, None)
    return json.dumps(d, sort_keys=True)


def family(s):
    return "%s%s" % (s["mode"], "/negative" if s.get("negative") else "")


def rand_leaves(rng, depth, p=None):
    side = 2 ** depth
    p = rng.choice([0.08, 0.3, 0.6, 1.0]) if p is None else p
    leaves = [[x, y, rng.choice(KINDS)] for y in range(side) for x in range(side) if rng.random() < p]
    if not leaves:
        leaves = [[rng.randrange(side), rng.randrange(side), "mixed"]]
    return leaves


def run(ctx):
    import json
    rng = ctx.rng
    report = M.Reporter(ctx)
    serial = []

    def mk(fmt, mode, depth, leaves, keep_kinds=False, **kw):
        s = {"format": fmt, "mode": mode, "depth": depth, "leaves": leaves, "seed": rng.randrange(2 ** 31), "workers": 1,
             "filter": None, "stale": False, "negative": False, "dirty": False, "via": "api", "leaf_writer": "toasty"}
        if mode in ("I16", "I32") and rng.random() < 0.25:
            s["negative"] = True
        if mode == "RGBA" and rng.random() < 0.3:
            s["dirty"] = True
        if (mode == "RGBA" or mode in M.INT_MODES) and not keep_kinds and rng.random() < 0.2:
            s["leaves"] = [[x, y, rng.choice(["faint", "faint", k])] for x, y, k in leaves]
        if rng.random() < 0.2:
            s["stale"] = True
        if rng.random() < 0.2:
            s["leaf_writer"] = "raw"
        s.update(kw)
        return s

    # depth 1: all subsets x all combos
    for fmt, mode in COMBOS:
        for sub in range(16):
            leaves = [[k % 2, k // 2, rng.choice(KINDS)] for k in range(4) if sub >> k & 1]
            serial.append(mk(fmt, mode, 1, leaves))
    n2, n3, n4, nfilt, npar, ncli = (3000, 400, 12, 300, 250, 12) if ctx.thorough else (120, 24, 0, 24, 28, 2)
    # colour pyramids with boundary contents (opaque black / white tiles, black tiles with
    # transparent holes, transparent pixels and whole transparent tiles carrying colour values)
    colour = []
    nc1, nc2, nc3 = (40, 60, 12) if ctx.thorough else (4, 3, 1)
    for fmt, mode in COLOUR_COMBOS:
        ck = COLOUR_KINDS[mode]
        for sub in range(1, 16):        # depth 1: every non-empty subset, all leaves opaque black
            colour.append(mk(fmt, mode, 1, [[k % 2, k // 2, "black"] for k in range(4) if sub >> k & 1], keep_kinds=True))
        for _ in range(nc1):            # depth 1: random subsets, kinds drawn from the colour kinds
            sub = rng.randrange(1, 16)
            colour.append(mk(fmt, mode, 1, [[k % 2, k // 2, rng.choice(ck)] for k in range(4) if sub >> k & 1], keep_kinds=True))
        for q in range(4):              # depth 2: one complete quartet of opaque black leaves
            qx, qy = 2 * (q % 2), 2 * (q // 2)
            quartet = [[qx + i, qy + j, "black"] for j in range(2) for i in range(2)]
            others = [[x, y, rng.choice(KINDS + ck)] for y in range(4) for x in range(4)
                      if (x // 2, y // 2) != (q % 2, q // 2) and rng.random() < 0.4]
            colour.append(mk(fmt, mode, 2, quartet + others, keep_kinds=True))
        for _ in range(nc2):            # depth 2: every quartet draws one colour kind for its leaves, or mixes
            leaves = []
            for q in range(4):
                qk = rng.choice(ck + [None])
                for j in range(2):
                    for i in range(2):
                        if rng.random() < 0.8:
                            leaves.append([2 * (q % 2) + i, 2 * (q // 2) + j, qk or rng.choice(KINDS + ck)])
            colour.append(mk(fmt, mode, 2, leaves or [[0, 0, "black"]], keep_kinds=True))
        for _ in range(nc3):            # depth 3: a 4x4 block of opaque black leaves (black up to level 1) + others
            bx, by = 4 * rng.randrange(2), 4 * rng.randrange(2)
            leaves = [[bx + i, by + j, "black"] for j in range(4) for i in range(4)]
            leaves += [[x, y, rng.choice(ck)] for y in range(8) for x in range(8)
                       if not (bx <= x < bx + 4 and by <= y < by + 4) and rng.random() < 0.1]
            colour.append(mk(fmt, mode, 3, leaves, keep_kinds=True))
    serial.extend(colour)
    ctx.bound("colour boundary contents, for each of %d colour (format, mode) pairs (png/jpg/npy RGB, png/npy RGBA): depth 1: all 15 non-empty "
              "subsets of opaque black leaves + %d random subsets; depth 2: each of the 4 quartets entirely opaque black beside random "
              "other leaves + %d pyramids whose quartets each draw one kind; depth 3: %d with a 4x4 block of opaque black leaves. Kinds: "
              "opaque black, opaque white, black with transparent holes, transparent-with-colour (whole tile, stored as a file; or "
              "part of a tile)" % (len(COLOUR_COMBOS), nc1, nc2, nc3))
    for k in range(16):
        fmt, mode = rng.choice(COMBOS)
        serial.append(mk(fmt, mode, 2, [[k % 4, k // 4, "mixed"]]))
    for _ in range(n2):
        fmt, mode = rng.choice(COMBOS)
        serial.append(mk(fmt, mode, 2, rand_leaves(rng, 2)))
    for _ in range(n3):
        fmt, mode = rng.choice(COMBOS)
        serial.append(mk(fmt, mode, 3, rand_leaves(rng, 3)))
    for _ in range(n4):
        fmt, mode = rng.choice(COMBOS)
        serial.append(mk(fmt, mode, 4, rand_leaves(rng, 4, p=rng.choice([0.03, 0.15]))))
    for _ in range(nfilt):
        fmt, mode = rng.choice(COMBOS)
        d = rng.choice([1, 2, 2, 3])
        serial.append(mk(fmt, mode, d, rand_leaves(rng, d), filter=rng.choice(["all", "populated"])))
    ctx.bound("depth 1: all 16 leaf subsets x %d (format, mode) pairs; depth 2: 16 single-leaf + %d random subsets; depth 3: %d; depth 4: %d; "
              "%d serial runs with a tile filter accepting every populated tile" % (len(COMBOS), n2, n3, n4, nfilt))
    # pyramids that are also cascaded in parallel
    wlist = [2, 3, 4] if ctx.thorough else [2, 4]
    cand = [s for s in serial if s["depth"] >= 1 and s["leaves"]]
    rng.shuffle(cand)
    ncpar = 40 if ctx.thorough else 6
    cpar = [s for s in colour if s["depth"] >= 2]
    rng.shuffle(cpar)
    par_bases = sorted(cand[:npar] + [s for s in cpar[:ncpar] if s not in cand[:npar]], key=lambda s: -s["depth"])
    parallel = []
    for s in par_bases:
        for w in wlist:
            p = dict(s)
            p["workers"] = w
            parallel.append(p)
    for i in range(ncli):
        s = dict(par_bases[i % len(par_bases)])
        s.update({"via": "cli", "workers": rng.choice([1, 2, None]), "filter": None, "cli_format": rng.random() < 0.7})
        parallel.append(s)
    ctx.bound("%d of these pyramids (%d random + up to %d of the colour-boundary ones of depth >= 2) re-run with workers in %r and compared tile "
              "by tile with the serial run; %d runs through `toasty cascade`" % (len(par_bases), npar, ncpar, wlist, ncli))
    ctx.assume("numpy .npy / PIL PNG+JPEG / astropy.io.fits decoders; JPEG parents: PIL's encoder is deterministic")
    ctx.note("integer tiles: zero is the undefined value, a parent whose merged tile is all zero must not exist; signed leaves are negative in ~25 % of the I16/I32 pyramids")
    ctx.note("a stale tile above the start level with no existing child is outside the explored domain (prior state is not quantified by C02)")

    # serial runs: batched in isolated interpreters; parallel runs: one interpreter each
    def cost(s):
        return 0.02 + 0.012 * len(s["leaves"]) * (3 if s["format"] in ("png", "jpg") else 1)
    order = sorted(serial, key=lambda s: -cost(s))
    batches, cur, c = [], [], 0.0
    for s in order:
        cur.append(s)
        c += cost(s)
        if c >= (6.0 if ctx.thorough else 1.5):
            batches.append(cur)
            cur, c = [], 0.0
    if cur:
        batches.append(cur)
    jobs = [("rt.c02", "cascade_case", {"spec": p, "workdir": ctx.workdir}, 90, p) for p in parallel] + \
           [("rt.c02", "batch", {"specs": b, "workdir": ctx.workdir}, 600, b) for b in batches]
    from rt.common import call_isolated
    import concurrent.futures

    def do(job):
        mod, fn, args, to, _ = job
        r = call_isolated(mod, fn, args, to)
        if r[0] == "timeout" and fn == "cascade_case":
            r2 = call_isolated(mod, fn, args, to)     # once more: a loaded machine is not a hang
            if r2[0] == "timeout":
                return ("timeout2", None, r[2] + r2[2])
            return r2
        return r

    with concurrent.futures.ThreadPoolExecutor(max_workers=M.n_workers()) as ex:
        results = list(ex.map(do, jobs))

    digests = {}   # base key -> {workers-label: digest}

    def account(spec, res):
        ctx.case(json.dumps(spec, sort_keys=True), nontrivial=bool(res["parents"]))
        for f in res["fails"]:
            w = dict(spec)
            w.update(f.get("extra") or {})
            report(f["obligation"], w, f["message"], family=family(spec))
        label = "%s/%s/%s" % (spec.get("via"), spec.get("workers"), spec.get("filter"))
        digests.setdefault(base_key(spec), {})[label] = (spec, res["digest"])

    for job, (status, res, secs) in zip(jobs, results):
        spec_or_batch = job[4]
        if job[1] == "batch":
            if status != "ok" or len(res["results"]) != len(spec_or_batch):
                raise RuntimeError("C02 serial batch %s after %.0fs: %s" % (status, secs, res))
            for s, r in zip(spec_or_batch, res["results"]):
                account(s, r)
        else:
            s = spec_or_batch
            if status == "timeout2":
                ctx.case(json.dumps(s, sort_keys=True))
                report(O_TERM, s, "cascade with %r workers did not return within 90 s (twice)" % (s.get("workers"),), family=family(s))
            elif status != "ok":
                raise RuntimeError("C02 parallel case %s after %.0fs: %s" % (status, secs, res))
            else:
                account(s, res)
    for bk, runs in digests.items():
        if len(runs) < 2:
            continue
        ref_label = "api/1/None" if "api/1/None" in runs else sorted(runs)[0]
        ref_spec, ref = runs[ref_label]
        for label, (spec, dg) in sorted(runs.items()):
            if dg != ref:
                diff = sorted(set(ref) ^ set(dg)) or sorted(k for k in ref if ref[k] != dg.get(k))
                w = dict(spec)
                w.update({"workers_a": ref_spec.get("workers"), "workers_b": spec.get("workers"), "tile": [int(v) for v in diff[0].split("/")]})
                report(O_SP, w, "runs %s and %s of the same pyramid differ at tile %s (%s)" % (
                    ref_label, label, diff[0], "present in one only" if (diff[0] in ref) != (diff[0] in dg) else "decoded pixels differ"), family=family(spec))
    for s in serial[17:19] + parallel[:1]:
        ctx.sample(s)
    report.summary()


def replay(obligation, witness):
    from rt.common import call_isolated
    d = tempfile.mkdtemp(prefix="c02_replay_")
    try:
        spec = dict(witness)
        if obligation == O_SP:
            a = dict(spec)
            a.update({"workers": witness.get("workers_a", 1), "via": "api", "filter": None})
            ra = call_isolated(MOD, "cascade_case", {"spec": a, "workdir": d}, 120)
            rb = call_isolated(MOD, "cascade_case", {"spec": spec, "workdir": d}, 120)
            if ra[0] != "ok" or rb[0] != "ok":
                return False, "a run did not complete: %s / %s" % (ra[0], rb[0])
            if ra[1]["digest"] != rb[1]["digest"]:
                return False, "serial and parallel results differ"
            return True, "serial and parallel results are identical"
        st, res, secs = call_isolated(MOD, "cascade_case", {"spec": spec, "workdir": d}, 120)
        if st == "timeout":
            return False, "cascade did not return within 120 s"
        if st != "ok":
            return False, "cascade run crashed: %s" % (res,)
        if res["fails"]:
            return False, "; ".join("%s: %s" % (f["obligation"], f["message"]) for f in res["fails"])
        return True, "every tile above level %s is the block mean of its children (%d parents checked)" % (witness.get("depth"), res["parents"])
    finally:
        shutil.rmtree(d, ignore_errors=True)
