"""C09 -- tiling images on a common TAN grid equals tiling the assembled mosaic (bounded tier).

Each scenario cuts rectangular pieces (overlapping or not, with NaN borders / holes, stored
top-down or bottom-up, in any order) out of one random top-down mosaic, writes them as FITS files
with hand-made headers, and runs the real ``MultiTanProcessor.compute_global_pixelization`` +
``.tile`` (fresh interpreter, watchdog).  The oracle is computed by this module from the property
statement, without toasty:

* paste the pieces into one canvas covering their union bounding box, undefined (NaN) pixels
  never overwriting defined ones;
* study tiling of that canvas (C08 statement): smallest 256*2^L square >= the canvas, canvas
  centred with offsets rounded down, tile (L, tx, ty) = the 256x256 block in display orientation,
  completely undefined blocks are not stored; FITS tiles hold the rows bottom-up;
* astrometry: the WCS of the canvas (same CRVAL and CD, CRPIX shifted to the canvas) handed to
  ``wwt_data_formats.ImageSet.set_position_from_wcs`` (external library = the definition of the
  fields) with tile_levels = L; compared with ``builder.imgset`` / ``builder.place``.

Tiles are read back with astropy.io.fits / numpy.

Obligations and witness keys (all witnesses carry the scenario: ``H, W, pieces [[y0,x0,h,w]..],
borders, holes, parity [..'td'|'bu'], header_style ('cdelt'|'cd'), theta_deg, scale_deg, crval,
crpix, crpix_frac, crpix_exact (bool: fraction 0 or .5, i.e. all CRPIX arithmetic is exact in binary), order, parallel, pio_format, dtype, data_seed, n_pieces, mixed_parity``):

* ``rt/multi_tan/runs``               + ``error`` (exception in compute_global_pixelization / tile)
* ``rt/multi_tan/terminates``         + ``timeout_s``
* ``rt/multi_tan/tiles_equal_mosaic`` + ``tile [L,x,y], n_bad, first_bad [i,j], observed, expected, hint``
* ``rt/multi_tan/undefined_never_overwrites_defined``  same keys; used instead of tiles_equal_mosaic when EVERY differing
  pixel of the tile is defined in the mosaic and undefined (NaN / integer 0) in the tile
* ``rt/multi_tan/tile_set``           + ``missing`` / ``stray`` (lists of relative paths)
* ``rt/multi_tan/astrometry``         + ``field, observed, expected``
* ``rt/multi_tan/no_lock_files``      + ``locks``

Bounds: quick: 26 general scenarios (18 random + 2 piece sets x 4 orders) + 18 "covered tile" scenarios
(``covered_tile_set``: piece A fully covers one 256x256 tile and is undefined along a border and in a hole
inside that tile, pieces B and C supply defined pixels there; all 6 input orders; set 1 with 1 and 2 workers,
set 2 alternating; thorough: 5 sets x 6 orders x 3 worker counts), canvases up to ~700 px (L <= 2),
1-4 pieces (random rectangles incl. 1-3 px slivers, regular grids with 0/3/17 px overlap, NaN
borders and holes), workers {1,2,3}, fits and npy pyramids, f32/f64 data and (2 of 7 general scenarios, one order set)
I16/I32 data, both parities (and mixed,
CD-style headers), rotations {0,30,-77,90,180,12.5} deg, CRPIX integer / half-integer / .25 / .3 /
.37 fractions.  thorough: 162 scenarios (90 random + all 24 orders of 3 four-piece sets), canvases
up to 1400 px (L <= 3), 1-6 pieces, workers {1,2,3,5}.
Integer data (quick 18 / thorough 66 further scenarios, ``build_integer``): I16 / I32 FITS inputs cut from a mosaic
whose pixels are all defined (non-zero) with both signs (undefined = 0, so about half of the defined values are
smaller than the undefined value): two pieces overlapping in a 60..140 px band, each undefined along a border / in a
hole inside the band, in BOTH input orders with 1 and 2 (thorough: 3) workers; 'covered tile' triples in all 6 orders.
A collection that the code refuses as "not on uniform WCS grid" (mixed parities with CDELT-style
headers: the library's own `_is_multi_tan` gate sends those to the multi-WCS path) is counted as a
trivial case, not as a violation (the generator only mixes parities with CD-style headers).
Reports are capped at 5 per (obligation, crpix_exact) family.

Trusted: astropy FITS codec and WCS header parsing, numpy .npy, wwt_data_formats' definition of
the image-set fields.  Tolerance: pixel values exact; astrometry 1e-9 relative / 1e-9 absolute.
"""
import itertools
import math
import os
import time
from concurrent.futures import ThreadPoolExecutor

import numpy as np

from rt.common import call_isolated

MOD = "rt.c09"
CAP = 5
KEYS = ("H", "W", "pieces", "borders", "holes", "parity", "header_style", "theta_deg", "scale_deg", "crval", "crpix",
        "crpix_frac", "crpix_exact", "order", "parallel", "pio_format", "dtype", "data_seed", "n_pieces", "mixed_parity")


# ---- scenario -> input files (no toasty) --------------------------------------------------------

INT_DTYPES = {"i16": np.int16, "i32": np.int32}


def is_int(cfg):
    return cfg["dtype"] in INT_DTYPES


def undef_value(cfg):
    """The undefined pixel value of the data type: NaN for floating point, 0 for integer data."""
    return 0 if is_int(cfg) else np.nan


def undef_mask(a):
    a = np.asarray(a)
    return np.isnan(a) if a.dtype.kind == "f" else (a == 0)


def mosaic_data(cfg):
    rng = np.random.default_rng(cfg["data_seed"])
    if is_int(cfg):
        # every pixel of the mosaic is defined (non-zero); values of both signs (e.g. background-subtracted
        # counts): about half of the defined pixels are negative, i.e. smaller than the undefined value 0
        hi = 30000 if cfg["dtype"] == "i16" else 2 ** 30
        mag = rng.integers(1, hi, (cfg["H"], cfg["W"]))
        small = rng.random((cfg["H"], cfg["W"])) < 0.3
        mag = np.where(small, rng.integers(1, 4, (cfg["H"], cfg["W"])), mag)
        sign = np.where(rng.random((cfg["H"], cfg["W"])) < 0.5, -1, 1)
        return (mag * sign).astype(INT_DTYPES[cfg["dtype"]])
    dt = np.float32 if cfg["dtype"] == "f32" else np.float64
    return (rng.random((cfg["H"], cfg["W"])) * 1000 - 200).astype(dt)


def piece_arrays(cfg):
    """Top-down arrays of the pieces (undefined borders / holes applied: NaN, or 0 for integer data)."""
    mos = mosaic_data(cfg)
    nan = undef_value(cfg)
    out = []
    for k, (y0, x0, h, w) in enumerate(cfg["pieces"]):
        a = mos[y0:y0 + h, x0:x0 + w].copy()
        b = cfg["borders"][k]
        if b:
            a[:b, :] = nan
            a[-b:, :] = nan
            a[:, :b] = nan
            a[:, -b:] = nan
        hole = cfg["holes"][k]
        if hole:
            hy, hx, hh, hw = hole
            a[hy:hy + hh, hx:hx + hw] = nan
        out.append(a)
    return out


def cd_topdown(cfg):
    s = cfg["scale_deg"]
    t = math.radians(cfg["theta_deg"])
    c, sn = math.cos(t), math.sin(t)
    # top-down (JPEG-like) parity: RA decreases with x, Dec decreases with y; rotated by theta
    return [[-s * c, s * sn], [-s * sn, -s * c]]


def write_inputs(cfg, indir):
    from astropy.io import fits
    os.makedirs(indir, exist_ok=True)
    cd = cd_topdown(cfg)
    s = cfg["scale_deg"]
    paths = []
    for k, a in enumerate(piece_arrays(cfg)):
        y0, x0, h, w = cfg["pieces"][k]
        crpix1 = cfg["crpix"][0] - x0
        crpix2 = cfg["crpix"][1] - y0
        m = [row[:] for row in cd]
        if cfg["parity"][k] == "bu":
            a = a[::-1]
            crpix2 = h + 1 - crpix2
            m[0][1] = -m[0][1]
            m[1][1] = -m[1][1]
        hdr = fits.Header()
        hdr["CTYPE1"] = "RA---TAN"
        hdr["CTYPE2"] = "DEC--TAN"
        hdr["CRVAL1"] = cfg["crval"][0]
        hdr["CRVAL2"] = cfg["crval"][1]
        hdr["CRPIX1"] = crpix1
        hdr["CRPIX2"] = crpix2
        hdr["CUNIT1"] = "deg"
        hdr["CUNIT2"] = "deg"
        if cfg["header_style"] == "cd":
            hdr["CD1_1"], hdr["CD1_2"], hdr["CD2_1"], hdr["CD2_2"] = m[0][0], m[0][1], m[1][0], m[1][1]
        else:
            d1 = -s
            d2 = -s if cfg["parity"][k] == "td" else s
            hdr["CDELT1"] = d1
            hdr["CDELT2"] = d2
            if cfg["theta_deg"] != 0:
                hdr["PC1_1"], hdr["PC1_2"] = m[0][0] / d1, m[0][1] / d1
                hdr["PC2_1"], hdr["PC2_2"] = m[1][0] / d2, m[1][1] / d2
        p = os.path.join(indir, "piece%02d.fits" % k)
        fits.PrimaryHDU(np.ascontiguousarray(a), header=hdr).writeto(p, overwrite=True)
        paths.append(p)
    return paths


# ---- oracle -------------------------------------------------------------------------------------

def expected_tiles(cfg):
    """-> (L, dict (tx,ty) -> 256x256 display-orientation block with >= 1 defined pixel, canvas size, offsets)"""
    pcs = cfg["pieces"]
    ux0 = min(p[1] for p in pcs)
    uy0 = min(p[0] for p in pcs)
    ux1 = max(p[1] + p[3] for p in pcs)
    uy1 = max(p[0] + p[2] for p in pcs)
    Wc, Hc = ux1 - ux0, uy1 - uy0
    arrs = piece_arrays(cfg)
    nan = undef_value(cfg)
    canvas = np.full((Hc, Wc), nan, arrs[0].dtype)
    for k in cfg["order"]:
        y0, x0, h, w = pcs[k]
        reg = canvas[y0 - uy0:y0 - uy0 + h, x0 - ux0:x0 - ux0 + w]
        a = arrs[k]
        ok = ~undef_mask(a)
        reg[ok] = a[ok]
    P = 256
    L = 0
    while P < max(Wc, Hc):
        P *= 2
        L += 1
    gx0 = (P - Wc) // 2
    gy0 = (P - Hc) // 2
    big = np.full((P, P), nan, canvas.dtype)
    big[gy0:gy0 + Hc, gx0:gx0 + Wc] = canvas
    tiles = {}
    for ty in range(P // 256):
        for tx in range(P // 256):
            blk = big[ty * 256:(ty + 1) * 256, tx * 256:(tx + 1) * 256]
            if not undef_mask(blk).all():
                tiles[(tx, ty)] = blk
    return L, tiles, (Wc, Hc), (ux0, uy0)


def expected_imageset(cfg, L, size, origin):
    from wwt_data_formats.imageset import ImageSet
    from wwt_data_formats.place import Place
    from wwt_data_formats.enums import ProjectionType
    cd = cd_topdown(cfg)
    hdr = {"CTYPE1": "RA---TAN", "CTYPE2": "DEC--TAN", "CRVAL1": cfg["crval"][0], "CRVAL2": cfg["crval"][1],
           "CRPIX1": cfg["crpix"][0] - origin[0], "CRPIX2": cfg["crpix"][1] - origin[1],
           "CD1_1": cd[0][0], "CD1_2": cd[0][1], "CD2_1": cd[1][0], "CD2_2": cd[1][1], "CUNIT1": "deg", "CUNIT2": "deg"}
    im = ImageSet()
    im.tile_levels = L
    im.projection = ProjectionType.SKY_IMAGE if L == 0 else ProjectionType.TAN
    pl = Place()
    import warnings
    with warnings.catch_warnings():
        warnings.simplefilter("ignore")
        im.set_position_from_wcs(hdr, size[0], size[1], place=pl)
    return describe(im, pl)


def describe(im, pl):
    return {"tile_levels": im.tile_levels, "projection": str(im.projection), "bottoms_up": bool(im.bottoms_up),
            "center_x": float(im.center_x), "center_y": float(im.center_y), "rotation_deg": float(im.rotation_deg),
            "base_degrees_per_tile": float(im.base_degrees_per_tile), "offset_x": float(im.offset_x),
            "offset_y": float(im.offset_y), "width_factor": im.width_factor,
            "place_ra_hr": float(pl.ra_hr), "place_dec_deg": float(pl.dec_deg), "place_zoom_level": float(pl.zoom_level)}


def tile_relpath(L, tx, ty, ext):
    return os.path.join(str(L), str(ty), "%d_%d.%s" % (ty, tx, ext))


def read_display(path, ext):
    if ext == "npy":
        return np.load(path)
    from astropy.io import fits
    with fits.open(path) as h:
        return np.array(h[0].data)[::-1]


# ---- isolated run -------------------------------------------------------------------------------

def tile_case(cfg):
    import traceback
    import warnings
    warnings.simplefilter("ignore")
    from toasty import collection, multi_tan, builder as tbuilder
    from toasty.pyramid import PyramidIO
    base = cfg["workdir"]
    paths = write_inputs(cfg, os.path.join(base, "in"))
    outdir = os.path.join(base, "out")
    problems = []
    pio = PyramidIO(outdir, default_format=cfg["pio_format"])
    b = tbuilder.Builder(pio)
    try:
        coll = collection.SimpleFitsCollection([paths[k] for k in cfg["order"]])
        proc = multi_tan.MultiTanProcessor(coll)
        proc.compute_global_pixelization(b)
        proc.tile(pio, parallel=cfg["parallel"])
    except BaseException as e:
        msg = "%s: %s" % (type(e).__name__, e)
        if "not on uniform WCS grid" in msg:
            return {"problems": [], "refused": msg, "tiles": 0}
        return {"problems": [{"obligation": "rt/multi_tan/runs", "error": msg,
                              "where": traceback.format_exc().strip().splitlines()[-3:]}], "tiles": 0}
    L, tiles, size, origin = expected_tiles(cfg)
    ext = cfg["pio_format"]
    exp_paths = {tile_relpath(L, tx, ty, ext): (tx, ty) for (tx, ty) in tiles}
    present = []
    locks = []
    for root, _d, files in os.walk(outdir):
        for f in files:
            rel = os.path.relpath(os.path.join(root, f), outdir)
            if f.endswith(".lock"):
                locks.append(rel)
            else:
                present.append(rel)
    if locks:
        problems.append({"obligation": "rt/multi_tan/no_lock_files", "locks": sorted(locks)[:8]})
    missing = sorted(set(exp_paths) - set(present))
    stray = []
    for rel in sorted(set(present) - set(exp_paths)):
        # a stored tile that is completely undefined is tolerated (content-wise identical to "no tile")
        try:
            if undef_mask(read_display(os.path.join(outdir, rel), ext)).all():
                continue
        except Exception:
            pass
        stray.append(rel)
    if missing or stray:
        problems.append({"obligation": "rt/multi_tan/tile_set", "missing": missing[:8], "stray": stray[:8]})
    n = 0
    for rel in sorted(set(exp_paths) & set(present)):
        tx, ty = exp_paths[rel]
        exp = tiles[(tx, ty)]
        obs = read_display(os.path.join(outdir, rel), ext)
        n += 1
        if obs.shape != (256, 256):
            problems.append({"obligation": "rt/multi_tan/tiles_equal_mosaic", "tile": [L, tx, ty], "n_bad": -1, "first_bad": None,
                             "observed": list(obs.shape), "expected": [256, 256], "hint": "shape"})
            continue
        if (obs.dtype.kind == "f") != (exp.dtype.kind == "f") or obs.dtype.itemsize != exp.dtype.itemsize:
            problems.append({"obligation": "rt/multi_tan/tiles_equal_mosaic", "tile": [L, tx, ty], "n_bad": -1, "first_bad": None,
                             "observed": str(obs.dtype), "expected": str(exp.dtype), "hint": "data type"})
            continue

        def eq(a, b):
            if exp.dtype.kind != "f":
                return a == b
            return (a == b) | (np.isnan(a) & np.isnan(b))

        same = eq(obs, exp)
        if not same.all():
            i, j = np.argwhere(~same)[0]
            hint = ""
            fl = obs[::-1]
            lost = int((undef_mask(obs) & ~undef_mask(exp)).sum())
            if eq(fl, exp).all():
                hint = "rows reversed"
            elif lost:
                hint = "%d pixels defined in the mosaic are undefined in the tile" % lost
            else:
                for dy, dx in ((0, 1), (0, -1), (1, 0), (-1, 0)):
                    sh = np.roll(np.roll(obs, dy, 0), dx, 1)
                    inner = (slice(2, -2), slice(2, -2))
                    if eq(sh[inner], exp[inner]).all():
                        hint = "shifted by (dy=%d, dx=%d)" % (-dy, -dx)
            n_bad = int((~same).sum())
            # every differing pixel is defined in the mosaic and undefined in the tile: the clause "undefined input
            # pixels never overwrite defined ones" (anything else: placement / values, the general clause)
            obl = "rt/multi_tan/undefined_never_overwrites_defined" if lost == n_bad and hint != "rows reversed" else "rt/multi_tan/tiles_equal_mosaic"
            problems.append({"obligation": obl, "tile": [L, tx, ty], "n_bad": n_bad,
                             "first_bad": [int(i), int(j)], "observed": float(obs[i, j]), "expected": float(exp[i, j]), "hint": hint})
    # astrometry
    try:
        exp_d = expected_imageset(cfg, L, size, origin)
        obs_d = describe(b.imgset, b.place)
        for k, ev in exp_d.items():
            ov = obs_d[k]
            if isinstance(ev, float):
                okv = abs(ov - ev) <= 1e-9 + 1e-9 * abs(ev)
                if k in ("rotation_deg",) and not okv:
                    okv = abs(((ov - ev + 180) % 360) - 180) <= 1e-9
            else:
                okv = ov == ev
            if not okv:
                problems.append({"obligation": "rt/multi_tan/astrometry", "field": k, "observed": ov, "expected": ev})
    except Exception as e:
        problems.append({"obligation": "rt/multi_tan/astrometry", "field": "*", "observed": "%s: %s" % (type(e).__name__, e),
                         "expected": "a description"})
    return {"problems": problems, "tiles": n, "L": L, "canvas": list(size)}


# ---- scenario generation --------------------------------------------------------------------------

def gen_pieces(rng, H, W, n, allow_border=True):
    pieces, borders, holes = [], [], []
    for k in range(n):
        style = rng.random()
        if style < 0.15:
            h, w = rng.randint(1, 3), rng.randint(1, max(1, W // 2))       # sliver
        elif style < 0.3:
            h, w = rng.randint(1, max(1, H // 2)), rng.randint(1, 3)
        else:
            h, w = rng.randint(max(1, H // 5), H), rng.randint(max(1, W // 5), W)
        h, w = min(h, H), min(w, W)
        y0, x0 = rng.randint(0, H - h), rng.randint(0, W - w)
        pieces.append([y0, x0, h, w])
        b = 0
        if allow_border and rng.random() < 0.4 and min(h, w) >= 7:
            b = rng.randint(1, min(h, w) // 3)
        borders.append(b)
        hole = None
        if rng.random() < 0.3 and h >= 4 and w >= 4:
            hh, hw = rng.randint(1, h // 2), rng.randint(1, w // 2)
            hole = [rng.randint(0, h - hh), rng.randint(0, w - hw), hh, hw]
        holes.append(hole)
    return pieces, borders, holes


def grid_pieces(rng, H, W, rows, cols, overlap):
    """A regular decomposition (like real survey tracts), optionally overlapping by a few pixels."""
    ys = sorted(rng.sample(range(1, H), rows - 1)) if rows > 1 else []
    xs = sorted(rng.sample(range(1, W), cols - 1)) if cols > 1 else []
    yb = [0] + ys + [H]
    xb = [0] + xs + [W]
    pieces = []
    for r in range(rows):
        for c in range(cols):
            y0, y1, x0, x1 = yb[r], yb[r + 1], xb[c], xb[c + 1]
            y0 = max(0, y0 - overlap)
            x0 = max(0, x0 - overlap)
            y1 = min(H, y1 + overlap)
            x1 = min(W, x1 + overlap)
            pieces.append([y0, x0, y1 - y0, x1 - x0])
    return pieces


def make_cfg(rng, H, W, pieces, borders, holes, parity_mode, header_style, theta, frac, parallel, pio_format, dtype, order=None):
    n = len(pieces)
    if parity_mode == "mixed":
        parity = [rng.choice(["td", "bu"]) for _ in range(n)]
        if n > 1 and len(set(parity)) == 1:
            parity[0] = "bu" if parity[0] == "td" else "td"
    else:
        parity = [parity_mode] * n
    crpix = [rng.randint(-50, W + 50) + frac, rng.randint(-50, H + 50) + frac]
    if order is None:
        order = list(range(n))
        rng.shuffle(order)
    return {"H": H, "W": W, "pieces": pieces, "borders": borders, "holes": holes, "parity": parity, "header_style": header_style,
            "theta_deg": theta, "scale_deg": rng.choice([0.001, 2.7e-4, 0.0123]),
            "crval": [rng.choice([0.0, 10.0, 359.9, 123.456]), rng.choice([0.0, 20.0, -45.5, 89.0])],
            "crpix": crpix, "crpix_frac": frac, "crpix_exact": frac in (0.0, 0.5), "order": order, "parallel": parallel, "pio_format": pio_format, "dtype": dtype,
            "data_seed": rng.randint(0, 10 ** 6), "n_pieces": n, "mixed_parity": len(set(parity)) > 1}


def build(ctx):
    rng = ctx.rng
    out = []
    n_rand = 18 if not ctx.thorough else 90
    max_side = 700 if not ctx.thorough else 1400
    pars = [1, 2, 3] if not ctx.thorough else [1, 2, 3, 5]
    fracs = [0.0, 0.5, 0.5, 0.25, 0.3, 0.37]
    for i in range(n_rand):
        if i % 3 == 0:
            H, W = rng.randint(1, 255), rng.randint(1, 255)
        elif i % 3 == 1:
            H, W = rng.randint(200, max_side // 2), rng.randint(200, max_side // 2)
        else:
            H, W = rng.randint(257, max_side), rng.randint(257, max_side)
        n = rng.randint(1, 4 if not ctx.thorough else 6)
        if i % 4 == 3:
            rows, cols = rng.randint(1, 3), rng.randint(1, 3)
            rows, cols = min(rows, H), min(cols, W)
            pieces = grid_pieces(rng, H, W, rows, cols, rng.choice([0, 0, 3, 17]))
            borders = [0] * len(pieces)
            holes = [None] * len(pieces)
        else:
            pieces, borders, holes = gen_pieces(rng, H, W, n)
        pm = ["td", "bu", "td", "bu", "mixed"][i % 5]
        hs = "cd" if pm == "mixed" or i % 2 == 0 else "cdelt"
        theta = [0.0, 0.0, 30.0, -77.0, 180.0, 90.0][i % 6]
        out.append(make_cfg(rng, H, W, pieces, borders, holes, pm, hs, theta, fracs[i % len(fracs)], pars[i % len(pars)],
                            "fits" if i % 5 != 4 else "npy", ["f32", "i16", "f32", "i32", "f32", "f32", "f64"][i % 7]))
    # order independence: the same piece sets in several / all orders
    nsets = 2 if not ctx.thorough else 3
    set_dtypes = ["f32"] * nsets + (["i16"] if not ctx.thorough else ["i16", "i32"])     # the last set(s): integer data of both signs
    for sidx in range(len(set_dtypes)):
        H, W = rng.randint(300, 600), rng.randint(300, 600)
        n = 3 if not ctx.thorough else 4
        pieces, borders, holes = gen_pieces(rng, H, W, n)
        # make them overlap heavily: enlarge every piece towards the centre
        for p in pieces:
            p[0] = min(p[0], H // 3)
            p[1] = min(p[1], W // 3)
            p[2] = max(p[2], H // 2)
            p[3] = max(p[3], W // 2)
            p[2] = min(p[2], H - p[0])
            p[3] = min(p[3], W - p[1])
        borders = [min(b, min(p[2], p[3]) // 3) for b, p in zip(borders, pieces)]
        holes = [None] * n
        basecfg = make_cfg(rng, H, W, pieces, borders, holes, ["td", "bu", "mixed"][sidx % 3], "cd", [0.0, 12.5, 0.0][sidx % 3],
                           0.5, 1, "fits", set_dtypes[sidx], order=list(range(n)))
        perms = list(itertools.permutations(range(n)))
        if not ctx.thorough:
            perms = [perms[0], perms[-1], perms[len(perms) // 2], perms[1]]
        for pi, perm in enumerate(perms):
            c = dict(basecfg)
            c["order"] = list(perm)
            c["parallel"] = pars[pi % len(pars)]
            out.append(c)
    return out


def study_frame(Hc, Wc):
    """(L, P, gx0, gy0): the canvas sits at (gx0, gy0) of the 256*2^L square (C08 statement)."""
    P, L = 256, 0
    while P < max(Wc, Hc):
        P *= 2
        L += 1
    return L, P, (P - Wc) // 2, (P - Hc) // 2


def covered_tile_set(rng, H, W, tx, ty, parity_mode, header_style, theta, frac, pio_format, dtype="f32"):
    """Three overlapping pieces whose union box is the H x W canvas:
    A  covers tile (tx, ty) of the canvas' study tiling COMPLETELY (plus a margin of 0..30 px) and has a
       NaN border wider than the margin, i.e. undefined pixels INSIDE the fully covered tile, and a NaN hole there;
    B  (top strip down to the middle of that tile) and C (lower right part) supply defined pixels under parts of
       A's border / hole; the lower left part of the border stays undefined.
    Whatever the order, A's undefined pixels must not replace B's / C's defined ones."""
    L, P, gx0, gy0 = study_frame(H, W)
    x0, y0 = 256 * tx - gx0, 256 * ty - gy0            # the tile in canvas coordinates
    assert 0 <= x0 and x0 + 256 <= W and 0 <= y0 and y0 + 256 <= H, "tile must lie inside the canvas"
    ml, mr = min(x0, rng.randint(0, 30)), min(W - x0 - 256, rng.randint(0, 30))
    mt, mb = min(y0, rng.randint(0, 30)), min(H - y0 - 256, rng.randint(0, 30))
    A = [y0 - mt, x0 - ml, 256 + mt + mb, 256 + ml + mr]
    bA = max(ml, mr, mt, mb) + rng.randint(5, 40)
    holeA = [mt + 100 + rng.randint(0, 40), ml + 90 + rng.randint(0, 40), rng.randint(10, 50), rng.randint(10, 50)]
    B = [0, 0, y0 + 128, W]
    C = [y0 + 100, x0 + 60, H - (y0 + 100), W - (x0 + 60)]
    pieces = [A, B, C]
    borders = [bA, 0, rng.choice([0, 3])]
    holes = [holeA, None, None]
    return make_cfg(rng, H, W, pieces, borders, holes, parity_mode, header_style, theta, frac, 1, pio_format, dtype, order=[0, 1, 2])


def overlap_pair_set(rng, H, W, axis, dtype, parity_mode, header_style, theta, frac, pio_format):
    """Two pieces whose union box is the H x W canvas and which overlap in a band of 60..140 px across ``axis``
    ('x': left / right pieces, 'y': upper / lower pieces).  Each piece is undefined along a border narrower than the
    band (and the second one in a hole inside the band), so inside the band each piece has undefined pixels where
    the other one has defined pixels: whatever the order, the piece tiled second brings undefined pixels over
    pixels that are already defined."""
    full = W if axis == "x" else H
    band = rng.randint(60, 140)
    lo = rng.randint(full // 3, full - full // 3 - band)
    hi = lo + band
    if axis == "x":
        A, B = [0, 0, H, hi], [0, lo, H, W - lo]
        hole = [rng.randint(0, H - 60), rng.randint(0, band - 30), rng.randint(20, 60), rng.randint(10, 30)]
    else:
        A, B = [0, 0, hi, W], [lo, 0, H - lo, W]
        hole = [rng.randint(0, band - 30), rng.randint(0, W - 60), rng.randint(10, 30), rng.randint(20, 60)]
    borders = [rng.randint(15, band // 2), rng.randint(15, band // 2)]
    return make_cfg(rng, H, W, [A, B], borders, [None, hole], parity_mode, header_style, theta, frac, 1, pio_format, dtype, order=[0, 1])


def undefined_over_defined_pixels(cfg):
    """Number of (piece, pixel) pairs where the piece is undefined, the mosaic is defined and the value there is
    negative -- for integer data: a defined value smaller than the undefined value 0 (oracle side only)."""
    pcs = cfg["pieces"]
    mos = mosaic_data(cfg)
    arrs = piece_arrays(cfg)
    defined = np.zeros(mos.shape, dtype=bool)
    for (y0, x0, h, w), a in zip(pcs, arrs):
        defined[y0:y0 + h, x0:x0 + w] |= ~undef_mask(a)
    n = 0
    for (y0, x0, h, w), a in zip(pcs, arrs):
        n += int((undef_mask(a) & defined[y0:y0 + h, x0:x0 + w] & (mos[y0:y0 + h, x0:x0 + w] < 0)).sum())
    return n


def build_integer(ctx):
    """Integer (I16 / I32) inputs with values of both signs (undefined = 0): overlapping pairs in both input orders
    and 'covered tile' triples in all six orders, serial and parallel."""
    rng = ctx.rng
    out = []
    if not ctx.thorough:
        pairs = [(overlap_pair_set(rng, 500, 600, "x", "i16", "bu", "cd", 0.0, 0.5, "fits"), [1, 2]),
                 (overlap_pair_set(rng, rng.randint(520, 700), rng.randint(300, 500), "y", "i32", "td", "cdelt", 0.0, 0.0, "fits"), [1, 2])]
        triples = [(covered_tile_set(rng, 512, 512, 0, 0, "bu", "cd", 0.0, 0.5, "fits", dtype="i16"), [1, 2])]
    else:
        pairs = []
        for k in range(8):
            pairs.append((overlap_pair_set(rng, rng.randint(300, 900), rng.randint(300, 900), "xy"[k % 2], ["i16", "i32"][(k // 2) % 2],
                                           ["bu", "td", "mixed"][k % 3], "cd" if k % 3 == 2 or k % 2 else "cdelt",
                                           [0.0, 30.0, 0.0, -77.0][k % 4], [0.5, 0.0, 0.25][k % 3], "fits" if k % 4 != 3 else "npy"), [1, 2, 3]))
        triples = [(covered_tile_set(rng, 512, 512, 0, 0, "bu", "cd", 0.0, 0.5, "fits", dtype="i16"), [1, 2, 3]),
                   (covered_tile_set(rng, 520, 600, 1, 1, "td", "cdelt", 0.0, 0.0, "fits", dtype="i32"), [1, 2, 3]),
                   (covered_tile_set(rng, 512, 512, 1, 1, "mixed", "cd", 12.5, 0.5, "npy", dtype="i16"), [1, 2])]
    for base, pars in pairs:
        for perm in ([0, 1], [1, 0]):
            for par in pars:
                c = dict(base)
                c["order"] = list(perm)
                c["parallel"] = par
                out.append(c)
    for base, pars in triples:
        for pi, perm in enumerate(itertools.permutations(range(3))):
            c = dict(base)
            c["order"] = list(perm)
            c["parallel"] = pars[pi % len(pars)]
            out.append(c)
    return out, len(pairs), len(triples)


def covered_tile_nan_pixels(cfg):
    """Number of pixels that are undefined in a piece which fully covers their 256x256 tile and defined in the
    mosaic (supplied by another piece) -- the feature the 'covered tile' scenarios are built for (oracle side only)."""
    pcs = cfg["pieces"]
    ux0, uy0 = min(p[1] for p in pcs), min(p[0] for p in pcs)
    Wc, Hc = max(p[1] + p[3] for p in pcs) - ux0, max(p[0] + p[2] for p in pcs) - uy0
    L, P, gx0, gy0 = study_frame(Hc, Wc)
    arrs = piece_arrays(cfg)
    defined = np.zeros((Hc, Wc), dtype=bool)
    for (y0, x0, h, w), a in zip(pcs, arrs):
        defined[y0 - uy0:y0 - uy0 + h, x0 - ux0:x0 - ux0 + w] |= ~undef_mask(a)
    n = 0
    for (y0, x0, h, w), a in zip(pcs, arrs):
        py, px = y0 - uy0 + gy0, x0 - ux0 + gx0          # piece in the square
        for ty in range(-(-py // 256), (py + h) // 256):
            for tx in range(-(-px // 256), (px + w) // 256):
                sy, sx = 256 * ty - py, 256 * tx - px    # tile inside the piece
                if sy < 0 or sx < 0 or sy + 256 > h or sx + 256 > w:
                    continue
                und = undef_mask(a[sy:sy + 256, sx:sx + 256])
                n += int((und & defined[sy + py - gy0:sy + py - gy0 + 256, sx + px - gx0:sx + px - gx0 + 256]).sum())
    return n


def build_covered(ctx):
    """Scenarios 'one piece fully covers a tile but is undefined along its border inside that tile': all input orders."""
    rng = ctx.rng
    out = []
    if not ctx.thorough:
        sets = [(covered_tile_set(rng, 512, 512, 0, 0, "td", "cdelt", 0.0, 0.5, "fits"), [1, 2]),          # canvas = 2 x 2 tiles exactly
                (covered_tile_set(rng, 520, 600, 1, 1, "bu", "cd", 12.5, 0.0, "fits"), [2, 1])]            # L = 2, tile (1,1) inside the canvas
        both = [True, False]
    else:
        sets = [(covered_tile_set(rng, 512, 512, 0, 0, "td", "cdelt", 0.0, 0.5, "fits"), [1, 2, 3]),
                (covered_tile_set(rng, 520, 600, 1, 1, "bu", "cd", 12.5, 0.0, "fits"), [1, 2, 3]),
                (covered_tile_set(rng, 512, 512, 1, 1, "mixed", "cd", 0.0, 0.5, "npy"), [1, 2, 5]),
                (covered_tile_set(rng, rng.randint(530, 700), rng.randint(530, 700), 2, 1, "td", "cd", -77.0, 0.25, "fits"), [1, 2, 3]),
                (covered_tile_set(rng, rng.randint(520, 700), rng.randint(770, 1000), 2, 1, "bu", "cdelt", 0.0, 0.0, "fits"), [1, 2, 3])]
        both = [True] * len(sets)
    for (base, pars), every in zip(sets, both):
        for pi, perm in enumerate(itertools.permutations(range(3))):
            for par in (pars if every else [pars[pi % len(pars)]]):
                c = dict(base)
                c["order"] = list(perm)
                c["parallel"] = par
                out.append(c)
    return out, len(sets)


# ---- driver ---------------------------------------------------------------------------------------

def _timeout(cfg):
    return 150 + (max(cfg["H"], cfg["W"]) // 256 + 1) ** 2 * 3 * len(cfg["pieces"])


def execute(cfg, workdir):
    c = dict(cfg)
    c["workdir"] = workdir
    t = _timeout(cfg)
    status, res, secs = call_isolated(MOD, "tile_case", {"cfg": c}, t)
    return status, res, secs, t


def judge(cfg, status, res, t):
    if status == "timeout":
        return [("rt/multi_tan/terminates", {"timeout_s": t}, "multi-TAN tiling did not return within %d s (workers %s)" % (t, cfg["parallel"]))]
    if status == "crash":
        return [("rt/multi_tan/runs", {"error": "interpreter exited: " + str(res)[-600:]}, "the tiling process died")]
    out = []
    for p in res["problems"]:
        obl = p.pop("obligation")
        msg = {
            "rt/multi_tan/undefined_never_overwrites_defined":
                "tile %s: %s pixels that are defined in the mosaic (supplied by one input) are undefined in the tile; first %s observed %s expected %s"
                % (p.get("tile"), p.get("n_bad"), p.get("first_bad"), p.get("observed"), p.get("expected")),
            "rt/multi_tan/runs": "tiling raised: %s" % p.get("error"),
            "rt/multi_tan/tiles_equal_mosaic": "tile %s differs from the mosaic tile in %s pixels; first %s observed %s expected %s %s"
                                               % (p.get("tile"), p.get("n_bad"), p.get("first_bad"), p.get("observed"), p.get("expected"), p.get("hint")),
            "rt/multi_tan/tile_set": "tile files differ from the mosaic's: missing %s stray %s" % (p.get("missing"), p.get("stray")),
            "rt/multi_tan/astrometry": "image-set field %s = %s, the mosaic gives %s" % (p.get("field"), p.get("observed"), p.get("expected")),
            "rt/multi_tan/no_lock_files": "lock files left behind: %s" % p.get("locks"),
        }[obl]
        out.append((obl, p, msg))
    return out


def run(ctx):
    import shutil
    scs = build(ctx)
    n_general = len(scs)
    cov, n_cov_sets = build_covered(ctx)
    scs += cov
    feature = [covered_tile_nan_pixels(c) for c in cov]
    if min(feature) == 0:
        raise RuntimeError("checker error in rt/c09: a 'covered tile' scenario lacks undefined pixels of a covering piece over defined ones")
    ctx.monitor("covered_tile_undefined_over_defined_pixels", sum(feature))
    ints, n_pairs, n_triples = build_integer(ctx)
    scs += ints
    ifeature = [undefined_over_defined_pixels(c) for c in ints]
    if min(ifeature) == 0:
        raise RuntimeError("checker error in rt/c09: an integer scenario lacks undefined pixels of one piece over negative defined ones")
    ctx.monitor("integer_undefined_over_negative_defined_pixels", sum(ifeature))
    ctx.bound("%d integer scenarios (I16 / I32 FITS inputs, every mosaic pixel defined = non-zero, about half of them negative, "
              "30 %% of magnitude <= 3; undefined = 0): %d two-piece sets overlapping in a 60..140 px band with undefined borders "
              "/ a hole inside the band, BOTH input orders x workers %s; %d 'covered tile' three-piece sets in all 6 orders; "
              "%d..%d undefined-over-negative-defined pixels per scenario.  Also %s of the general scenarios and one "
              "heavy-overlap order set%s use integer data"
              % (len(ints), n_pairs, "{1,2}" if not ctx.thorough else "{1,2,3}", n_triples, min(ifeature), max(ifeature),
                 "2/7", "" if not ctx.thorough else " each for I16 and I32"))
    ctx.bound("%d further scenarios 'a piece fully covers a 256x256 tile, is undefined along a border (and in a hole) INSIDE that tile, "
              "and another piece supplies defined pixels there' (%d..%d such pixels per scenario): %d three-piece sets (canvas exactly "
              "2x2 tiles; tile (1,1) of a level-2 tiling%s), ALL 6 input orders, workers %s"
              % (len(cov), min(feature), max(feature), n_cov_sets,
                 "; mixed parity npy; rotated; wide level-2" if ctx.thorough else "",
                 "{1,2} (both for the first set, alternating for the second)" if not ctx.thorough else "{1,2,3} / {1,2,5}"))
    ctx.bound("%d general scenarios; canvases up to %d px; 1..%d pieces (random rectangles incl. 1-3 px slivers, regular grids with "
              "0/3/17 px overlap), NaN borders and holes; parities td / bu / mixed; header styles CDELT(+PC) and CD; rotations "
              "{0,30,-77,90,180,12.5} deg; CRPIX integer, half-integer and .25/.3/.37 fractions; workers %s; fits and npy "
              "pyramids; f32, f64, i16 and i32 data" % (n_general, 700 if not ctx.thorough else 1400, 4 if not ctx.thorough else 6,
                                              [1, 2, 3] if not ctx.thorough else [1, 2, 3, 5]))
    ctx.bound("order independence: %s of piece sets with heavy overlaps" % ("4 orders of 3 three-piece sets (2 float, 1 I16)" if not ctx.thorough
                                                                             else "all 24 orders of 5 four-piece sets (3 float, I16, I32)"))
    ctx.assume("astropy FITS codec / WCS parsing; wwt_data_formats.ImageSet.set_position_from_wcs defines the image-set fields")

    def work(item):
        i, cfg = item
        wd = os.path.join(ctx.workdir, "s%03d" % i)
        r = execute(cfg, wd)
        shutil.rmtree(wd, ignore_errors=True)
        return i, r

    t0 = time.time()
    with ThreadPoolExecutor(max_workers=8) as ex:
        results = dict(ex.map(work, list(enumerate(scs))))
    per = {}
    fams = {}
    tiles = 0
    refused = 0
    for i, cfg in enumerate(scs):
        status, res, secs, t = results[i]
        is_ref = status == "ok" and bool(res.get("refused"))
        refused += is_ref
        ctx.case(tuple(str(cfg[k]) for k in KEYS), nontrivial=not is_ref)
        if status == "ok":
            tiles += res.get("tiles", 0)
        if i % 9 == 0:
            ctx.sample({"scenario": {k: cfg[k] for k in ("H", "W", "pieces", "parity", "header_style", "theta_deg", "crpix", "order",
                                                         "parallel", "pio_format")},
                        "status": status, "result": {k: res.get(k) for k in ("tiles", "L", "canvas", "refused")} if status == "ok" else None})
        for obl, extra, msg in judge(cfg, status, res, t):
            per[obl] = per.get(obl, 0) + 1
            fam = (obl, cfg["crpix_exact"])          # cap per family so that one family cannot hide another
            n = fams.get(fam, 0)
            fams[fam] = n + 1
            if n < CAP:
                w = {k: cfg[k] for k in KEYS}
                w.update(extra)
                ctx.violation(obl, w, msg)
    ctx.monitor("tiles_compared_with_mosaic", tiles)
    ctx.note("scenarios: %d in %.1f s; tiles compared: %d; refused as non-uniform grid (trivial): %d; problems: %s"
             % (len(scs), time.time() - t0, tiles, refused, per))


def replay(obligation, witness):
    import shutil
    import tempfile
    cfg = {k: witness[k] for k in KEYS}
    wd = tempfile.mkdtemp(prefix="c09_replay_")
    try:
        status, res, secs, t = execute(cfg, os.path.join(wd, "p"))
    finally:
        shutil.rmtree(wd, ignore_errors=True)
    found = judge(cfg, status, res, t)
    same = [f for f in found if f[0] == obligation]
    if same:
        return False, "still fails: %s" % same[0][2]
    if found:
        return False, "fails differently now: %s: %s" % (found[0][0], found[0][2])
    return True, "tiles, description and lock clean-up now agree with the mosaic (%s tiles compared)" % (res or {}).get("tiles")
