"""C15 bounded run-time driver: undefined pixels stay undefined; tile persistence.

Drives the real ``Image.fill_into_maskable_buffer`` / ``update_into_maskable_buffer`` /
``clear`` / ``ImageMode.make_maskable_buffer`` and ``PyramidIO.write_image`` /
``read_image`` and compares with an oracle written cell by cell from the statement
("undefined" = alpha 0 for colour, NaN for floating point, 0 for integer data).

Obligations that can be reported (witness keys in brackets)
  rt/ImageMode.make_maskable_buffer/shape-and-mode       [kind, mode, buf_shape, ...]
  rt/Image.fill_into_maskable_buffer/addressed-cells     [kind=fill, mode, img_shape, buf_shape,
  rt/Image.fill_into_maskable_buffer/rest-undefined       iy, ix, by, bx, content, seed]
  rt/Image.fill_into_maskable_buffer/raises
  rt/Image.update_into_maskable_buffer/frame             (a cell outside the rectangle changed)
  rt/Image.update_into_maskable_buffer/undefined-source-keeps-old
  rt/Image.update_into_maskable_buffer/defined-source-wins   (colour, float; and every mode
                                                              when the old cell was undefined)
  rt/Image.update_into_maskable_buffer/integer-keeps-larger  (both defined, any signs: max(old, src))
  rt/Image.update_into_maskable_buffer/raises            [kind=update, same keys + old_content,
                                                          src_mask/old_mask for the 2x2 family]
  rt/Image.clear/all-undefined                           [kind=clear, mode, buf_shape, seed]
  rt/PyramidIO.write_image/all-undefined-not-stored      [kind=persist, mode, format, scheme,
  rt/PyramidIO.write_image/all-zero-integer-tile-not-stored   shape, prior, steps, explicit_format,
  rt/PyramidIO.write_image/defined-tile-stored            seed; + step = index of the failing step]
  rt/PyramidIO.read_image/missing-tile                   (absent -> None; default='masked' ->
                                                          all-undefined 256x256 tile)
  rt/PyramidIO.read_image/read-back                      (identical pixels and mode)
  rt/PyramidIO.write_image/raises, rt/PyramidIO.read_image/raises
Floating-point cases may carry ``inf`` / ``old_inf`` (fill, update, clear) or ``step_inf`` (persist; one entry per step):
'all' | 'some' | 'channel' = which of the DEFINED pixels of the source / the old buffer content / the tile written are
+inf or -inf (rt/c15_modes.random_array).  Infinities are defined values: only NaN is undefined for floating-point data.
Indexers in a witness are ["slice", start, stop, step] or ["index", [..]].
``all-zero-integer-tile-not-stored`` is the integer instance of "a tile whose pixels are all
undefined is never stored" (the statement defines zero as undefined for integer data); it
has its own name so that it cannot mask, or be masked by, the float/colour instance.
Witnesses of I16/I32 cases carry negative=true when the data contain negative values.

Bounds
  quick   : every rectangle (all sizes and positions) of a 3x3 image into a 4x4 buffer x
            {forward, reversed} rows x {forward, reversed} columns x 8 modes, for fill and for
            update; 2x2 rectangle with all 16 source masks x all 16 old masks x 7 maskable
            modes x 2 row orders; 60 random large cases per mode and operation (buffers
            256/512 incl. the cascade quadrant slices and the reversed-row study slice);
            10 point-list (integer-array) fills per mode; persistence: every mode x lossless
            format x prior state {absent, stale defined tile, stale foreign bytes} x
            15 histories of 1..3 writes.
  thorough: 5x5 image into 6x6 buffer exhaustively, 1500 random large cases per mode and
            operation, 200 point-list fills per mode, 300 histories per (mode, format, prior).
Trusted: numpy/PIL/astropy codecs; numpy fancy indexing to enumerate the addressed cells.
Not covered: ``update`` with integer-array indexers (not a rectangle indexer; the repository
only uses that form with ``fill``).
"""
import os
import shutil
import tempfile

import numpy as np

from rt import c15_modes as M

MOD = "rt.c15"
O_MK = "rt/ImageMode.make_maskable_buffer/shape-and-mode"
O_F_CELLS = "rt/Image.fill_into_maskable_buffer/addressed-cells"
O_F_REST = "rt/Image.fill_into_maskable_buffer/rest-undefined"
O_F_RAISE = "rt/Image.fill_into_maskable_buffer/raises"
O_U_FRAME = "rt/Image.update_into_maskable_buffer/frame"
O_U_KEEP = "rt/Image.update_into_maskable_buffer/undefined-source-keeps-old"
O_U_WIN = "rt/Image.update_into_maskable_buffer/defined-source-wins"
O_U_MAX = "rt/Image.update_into_maskable_buffer/integer-keeps-larger"
O_U_RAISE = "rt/Image.update_into_maskable_buffer/raises"
O_CLEAR = "rt/Image.clear/all-undefined"
O_W_UNDEF = "rt/PyramidIO.write_image/all-undefined-not-stored"
O_W_INTZERO = "rt/PyramidIO.write_image/all-zero-integer-tile-not-stored"
O_W_STORED = "rt/PyramidIO.write_image/defined-tile-stored"
O_R_MISSING = "rt/PyramidIO.read_image/missing-tile"
O_R_BACK = "rt/PyramidIO.read_image/read-back"
O_W_RAISE = "rt/PyramidIO.write_image/raises"
O_R_RAISE = "rt/PyramidIO.read_image/raises"

MASKABLE = [m for m in M.MODES if m != "RGB"]

# The statement calls zero "undefined" for integer data, so an all-zero U8/I16/I32 tile is a
# tile whose pixels are all undefined: it must not be stored.  The integer instance keeps its
# own obligation name (O_W_INTZERO) -- it was a defect of the pinned tree, repaired by e77996c.


def mk_indexer(d):
    if d[0] == "slice":
        return slice(d[1], d[2], d[3])
    return np.array(d[1], dtype=int)


def addressed(n, d):
    """Positions along an axis of length n selected by the indexer description."""
    return np.arange(n)[mk_indexer(d)]


def _px(a, r, c):
    return np.asarray(a[r, c]).tolist()


def _pix_equal(a, b):
    a = np.asarray(a)
    b = np.asarray(b)
    if a.dtype.kind == "f":
        return bool(np.all((a == b) | (np.isnan(a) & np.isnan(b))))
    return bool(np.all(a == b))


# ----------------------------------------------------------------------------- fill / update

def check_buffer_case(spec):
    """Returns a list of (obligation, message)."""
    from toasty.image import Image, ImageMode

    mode = spec["mode"]
    bmode = M.buffer_mode(mode)
    H, W = spec["img_shape"]
    BH, BW = spec["buf_shape"]
    nprng = np.random.default_rng(spec["seed"])
    src = M.random_array(mode, H, W, nprng, kind=spec.get("content", "mixed"), negative=bool(spec.get("negative")), dirty=bool(spec.get("dirty")),
                         inf=spec.get("inf"))
    points = spec["by"][0] == "index" and spec["bx"][0] == "index"
    srows, scols = addressed(H, spec["iy"]), addressed(W, spec["ix"])
    brows, bcols = addressed(BH, spec["by"]), addressed(BW, spec["bx"])
    if points:
        cells = list(zip(brows.tolist(), bcols.tolist(), srows.tolist(), scols.tolist()))
        bsel, ssel = (brows, bcols), (srows, scols)
        grid = (len(cells), 1)
    else:
        cells = None  # enumerated lazily: (buffer row, buffer col, source row, source col), row-major
        bsel, ssel = np.ix_(brows, bcols), np.ix_(srows, scols)
        grid = (len(brows), len(bcols))

    def cell(k):
        if cells is not None:
            return cells[k]
        r, c = divmod(k, grid[1])
        return int(brows[r]), int(bcols[c]), int(srows[r]), int(scols[c])

    ncells = grid[0] * grid[1]

    def take(a, sel):
        """The addressed pixels of ``a`` as a (grid) array of pixels."""
        v = a[sel]
        return v.reshape(grid + a.shape[2:])

    if "src_mask" in spec:  # exhaustive 2x2 mask family: impose the masks on the addressed cells
        for k in range(ncells):
            br, bc, sr, sc = cell(k)
            if spec["src_mask"] >> k & 1:
                src[sr, sc] = M.undef_value(mode)
            elif np.all(M.undef_mask(mode, src[sr:sr + 1, sc:sc + 1])):
                src[sr, sc] = -7 if spec.get("negative") and k % 2 else 7
    addr = np.zeros((BH, BW), bool)
    addr[bsel] = True
    src_before = src.copy()
    img = Image.from_array(src)
    try:
        buf = ImageMode[mode].make_maskable_buffer(BH, BW)
        barr = buf.asarray()
        if buf.mode.name != bmode or M.mode_of_array(barr) != bmode or barr.shape[:2] != (BH, BW):
            return [(O_MK, "make_maskable_buffer(%d, %d) of %s gave mode %s shape %r dtype %s" % (BH, BW, mode, buf.mode, barr.shape, barr.dtype))]
    except Exception as e:
        return [(O_MK, "raised %s: %s" % (type(e).__name__, e))]
    idx = [mk_indexer(spec[k]) for k in ("iy", "ix", "by", "bx")]

    # the source pixels as they must appear in the buffer (RGB gains alpha 255)
    V = take(src_before, ssel)
    if mode == "RGB":
        V = np.concatenate([V, np.full(grid + (1,), 255, np.uint8)], axis=2)
    s_und = M.undef_mask(bmode, V)

    def pix_eq(a, b):
        e = (a == b)
        if a.dtype.kind == "f":
            e |= np.isnan(a) & np.isnan(b)
        return e.all(axis=2) if e.ndim == 3 else e

    def first(badmask):
        k = int(np.flatnonzero(badmask.ravel())[0])
        return cell(k), divmod(k, grid[1])

    if spec["kind"] == "fill":
        # the buffer starts with arbitrary defined garbage: fill must mark the rest undefined
        garbage = M.random_array(bmode, BH, BW, nprng, kind="full", negative=bool(spec.get("negative")), inf=spec.get("old_inf"))
        buf._as_writeable_array()[...] = garbage
        try:
            img.fill_into_maskable_buffer(buf, *idx)
        except Exception as e:
            return [(O_F_RAISE, "%s: %s" % (type(e).__name__, e))]
        got = buf.asarray()
        und = M.undef_mask(bmode, got)
        if not np.all(und[~addr]):
            r, c = np.argwhere(~addr & ~und)[0]
            return [(O_F_REST, "buffer cell (%d,%d) is not addressed but holds %r after fill" % (r, c, _px(got, r, c)))]
        G = take(got, bsel)
        # an undefined source pixel must not define the cell; a defined one is copied exactly
        ok = np.where(s_und, M.undef_mask(bmode, G), pix_eq(G, V))
        if not ok.all():
            (br, bc, sr, sc), (r, c) = first(~ok)
            return [(O_F_CELLS, "buffer cell (%d,%d) = %r, source pixel (%d,%d) = %r" % (br, bc, _px(got, br, bc), sr, sc, _px(V, r, c)))]
    else:
        old = M.random_array(bmode, BH, BW, nprng, kind=spec.get("old_content", "mixed"), negative=bool(spec.get("negative")), dirty=bool(spec.get("dirty")),
                             inf=spec.get("old_inf"))
        if "old_mask" in spec:
            for k in range(ncells):
                br, bc, sr, sc = cell(k)
                if spec["old_mask"] >> k & 1:
                    old[br, bc] = M.undef_value(bmode)
                elif M.undef_mask(bmode, old[br:br + 1, bc:bc + 1])[0, 0]:
                    old[br, bc] = -9 if spec.get("negative") and k >= 2 else 9
        buf._as_writeable_array()[...] = old
        try:
            img.update_into_maskable_buffer(buf, *idx)
        except Exception as e:
            return [(O_U_RAISE, "%s: %s" % (type(e).__name__, e))]
        got = buf.asarray()
        same = (got == old)
        if got.dtype.kind == "f":
            same |= np.isnan(got) & np.isnan(old)
        if same.ndim == 3:
            same = same.all(axis=2)
        if not np.all(same[~addr]):
            r, c = np.argwhere(~addr & ~same)[0]
            return [(O_U_FRAME, "buffer cell (%d,%d) is not addressed but changed from %r to %r" % (r, c, _px(old, r, c), _px(got, r, c)))]
        G, O = take(got, bsel), take(old, bsel)
        o_und = M.undef_mask(bmode, O)

        def where(rc):
            (br, bc, sr, sc), (r, c) = rc
            return "buffer cell (%d,%d): old %r, source pixel (%d,%d) %r, new %r" % (br, bc, _px(O, r, c), sr, sc, _px(V, r, c), _px(G, r, c))

        bad = s_und & ~pix_eq(G, O)
        if bad.any():
            return [(O_U_KEEP, where(first(bad)))]
        wins = ~s_und & (o_und if mode in M.INT_MODES else np.ones(grid, bool))
        bad = wins & ~pix_eq(G, V)
        if bad.any():
            return [(O_U_WIN, where(first(bad)))]
        if mode in M.INT_MODES:
            larger = np.where(O.astype(np.int64) >= V.astype(np.int64), O, V)
            bad = ~s_und & ~o_und & (G != larger)
            if bad.any():
                return [(O_U_MAX, where(first(bad)))]
    if not M.same_pixels(img.asarray(), src_before):
        return [(O_U_FRAME if spec["kind"] == "update" else O_F_CELLS, "the source image was modified")]
    return []


def check_clear(spec):
    from toasty.image import ImageMode
    mode = spec["mode"]
    bmode = M.buffer_mode(mode)
    BH, BW = spec["buf_shape"]
    nprng = np.random.default_rng(spec["seed"])
    try:
        buf = ImageMode[mode].make_maskable_buffer(BH, BW)
        buf._as_writeable_array()[...] = M.random_array(bmode, BH, BW, nprng, kind="full", inf=spec.get("old_inf"))
        buf.clear()
        got = buf.asarray()
    except Exception as e:
        return [(O_CLEAR, "raised %s: %s" % (type(e).__name__, e))]
    if got.shape[:2] != (BH, BW) or not np.all(M.undef_mask(bmode, got)):
        return [(O_CLEAR, "buffer not entirely undefined after clear()")]
    return []


# ----------------------------------------------------------------------------- persistence

def check_persist(spec, workdir):
    from toasty.image import Image, ImageMode
    from toasty.pyramid import PyramidIO, Pos

    mode, fmt, scheme = spec["mode"], spec["format"], spec.get("scheme", "L/Y/YX")
    H, W = spec.get("shape", [256, 256])
    nprng = np.random.default_rng(spec["seed"])
    pos = Pos(*spec.get("pos", [2, 1, 3]))
    base = tempfile.mkdtemp(prefix="c15_", dir=workdir)
    explicit = bool(spec.get("explicit_format"))
    try:
        default_format = fmt
        kw = {}
        if explicit:
            default_format = "png" if fmt != "png" else "npy"
            kw = {"format": fmt}
        pio = PyramidIO(base, scheme=scheme, default_format=default_format)
        if scheme == "L/Y/YX":
            path = os.path.join(base, str(pos.n), str(pos.y), "%d_%d.%s" % (pos.y, pos.x, fmt))
        else:
            path = os.path.join(base, "L%dX%dY%d.%s" % (pos.n, pos.x, pos.y, fmt))

        def missing_checks(tag):
            if os.path.exists(path):
                return None
            try:
                r = pio.read_image(pos, **kw)
                if r is not None:
                    return (O_R_MISSING, "%s: read_image of a missing tile returned %r instead of None" % (tag, r))
                m = pio.read_image(pos, default="masked", masked_mode=ImageMode[mode], **kw)
                a = None if m is None else m.asarray()
                bm = M.buffer_mode(mode)
                if a is None or a.shape[:2] != (256, 256) or M.mode_of_array(a) != bm or not np.all(M.undef_mask(bm, a)):
                    return (O_R_MISSING, "%s: read_image(default='masked') of a missing tile is not an all-undefined 256x256 %s tile" % (tag, bm))
            except Exception as e:
                return (O_R_RAISE, "%s: read of a missing tile raised %s: %s" % (tag, type(e).__name__, e))
            return None

        # prior state of the file
        prior = spec.get("prior", "absent")
        if prior == "stale-defined":
            os.makedirs(os.path.dirname(path), exist_ok=True)
            stale = M.random_array(mode, H, W, nprng, kind="full")
            _raw_write(path, fmt, stale)
        elif prior == "stale-foreign":
            os.makedirs(os.path.dirname(path), exist_ok=True)
            with open(path, "wb") as f:
                f.write(bytes(nprng.integers(0, 256, 300, dtype=np.uint8)))
        else:
            bad = missing_checks("never written")
            if bad:
                return [bad + ({"step": -1},)]

        step_inf = spec.get("step_inf") or [None] * len(spec["steps"])
        for k, content in enumerate(spec["steps"]):
            arr = M.random_array(mode, H, W, nprng, kind=content, negative=bool(spec.get("negative")), dirty=bool(spec.get("dirty")),
                                 inf=step_inf[k])
            all_undef = bool(np.all(M.undef_mask(mode, arr)))
            tag = "step %d (%s)" % (k, content)
            try:
                pio.write_image(pos, Image.from_array(arr.copy(), default_format=fmt), **kw)
            except Exception as e:
                return [(O_W_RAISE, "%s: %s: %s" % (tag, type(e).__name__, e), {"step": k})]
            exists = os.path.exists(path)
            if all_undef:
                if exists:
                    obl = O_W_INTZERO if mode in M.INT_MODES else O_W_UNDEF
                    return [(obl, "%s: every pixel of the tile is undefined but a file is present after write_image (prior state: %s)" % (
                        tag, prior if k == 0 else spec["steps"][k - 1]), {"step": k})]
                bad = missing_checks(tag)
                if bad:
                    return [bad + ({"step": k},)]
                continue
            if not exists:
                return [(O_W_STORED, "%s: tile with defined pixels has no file after write_image" % tag, {"step": k})]
            try:
                r = pio.read_image(pos, **kw)
                ra = None if r is None else r.asarray()
            except Exception as e:
                return [(O_R_RAISE, "%s: %s: %s" % (tag, type(e).__name__, e), {"step": k})]
            if ra is None or r.mode.name != mode or M.mode_of_array(ra) != mode or not M.same_pixels(ra, arr):
                return [(O_R_BACK, "%s: read_image returned %s, wrote mode %s shape %r" % (
                    tag, "None" if ra is None else "mode %s shape %r dtype %s, pixels %s" % (
                        r.mode, ra.shape, ra.dtype, "equal" if M.same_pixels(ra, arr) else "differ"), mode, arr.shape), {"step": k})]
            raw, _ = M.read_tile_file(path, fmt)
            if not M.same_pixels(raw, arr):
                return [(O_R_BACK, "%s: file decoded with the plain codec differs from the pixels written" % tag, {"step": k})]
        return []
    finally:
        shutil.rmtree(base, ignore_errors=True)


def _raw_write(path, fmt, arr):
    if fmt == "npy":
        np.save(path, arr)
    elif fmt == "fits":
        from astropy.io import fits
        fits.writeto(path, arr, overwrite=True)
    else:
        from PIL import Image as PILImage
        PILImage.fromarray(arr).save(path, format="PNG")


# ----------------------------------------------------------------------------- batches

def batch(specs, workdir):
    import warnings
    warnings.simplefilter("ignore")
    fails = []
    for s in specs:
        if s["kind"] in ("fill", "update"):
            res = [(o, m, {}) for o, m in check_buffer_case(s)]
        elif s["kind"] == "clear":
            res = [(o, m, {}) for o, m in check_clear(s)]
        else:
            res = check_persist(s, workdir)
        for o, m, extra in res:
            if len(fails) < 60:
                w = dict(s)
                w.update(extra)
                fails.append({"obligation": o, "witness": w, "message": m})
    return {"n": len(specs), "fails": fails}


def _key(s):
    import json
    return json.dumps(s, sort_keys=True)


def _sl(a, b, rev):
    """slice addressing positions a..b-1, forward or reversed (with the -1 -> None repair)."""
    if not rev:
        return ["slice", a, b, None]
    return ["slice", b - 1, (a - 1) if a > 0 else None, -1]


def run(ctx):
    rng = ctx.rng
    report = M.Reporter(ctx)
    specs = []
    contents = ["mixed", "mixed", "full", "blocks", "sparse", "single", "allundef"]

    def seed():
        return rng.randrange(2 ** 31)

    # 1. exhaustive small rectangles
    n_img, n_buf = (5, 6) if ctx.thorough else (3, 4)
    rects = []
    for h in range(1, n_img + 1):
        for iy in range(0, n_img - h + 1):
            for by in range(0, n_buf - h + 1):
                rects.append((h, iy, by))
    for mode in M.MODES:
        for (h, iy, by) in rects:
            for (w, ix, bx) in rects:
                for ry in (False, True):
                    for rx in (False, True):
                        for kind in ("fill", "update"):
                            specs.append({"kind": kind, "mode": mode, "img_shape": [n_img, n_img], "buf_shape": [n_buf, n_buf],
                                          "iy": _sl(iy, iy + h, False), "ix": _sl(ix, ix + w, False),
                                          "by": _sl(by, by + h, ry), "bx": _sl(bx, bx + w, rx),
                                          "content": rng.choice(contents), "old_content": rng.choice(contents), "seed": seed()})
    ctx.bound("fill/update: every rectangle of a %dx%d image into a %dx%d buffer (%d per axis) x row order x column order x 8 modes" % (
        n_img, n_img, n_buf, n_buf, len(rects)))
    # 2. exhaustive masks on a 2x2 rectangle
    for mode in MASKABLE:
        for sm in range(16):
            for om in range(16):
                for ry in (False, True):
                    specs.append({"kind": "update", "mode": mode, "img_shape": [3, 3], "buf_shape": [4, 4],
                                  "iy": _sl(1, 3, False), "ix": _sl(0, 2, False), "by": _sl(1, 3, ry), "bx": _sl(2, 4, False),
                                  "content": "full", "old_content": "mixed", "src_mask": sm, "old_mask": om, "seed": seed()})
    ctx.bound("update: 2x2 rectangle, all 16 source masks x all 16 old-cell masks x 7 maskable modes x 2 row orders")
    # 2b. the same family with infinite values (floating-point modes): +inf / -inf are defined values -- the statement
    # names NaN as the undefined floating-point value -- so a source pixel holding an infinity (in every channel or in
    # one channel only) replaces the old value like any other defined pixel, and an infinite old value is replaced / kept
    # like any other defined old value
    for mode in M.FLOAT_MODES:
        for sm in range(16):
            for om in range(16):
                for inf, old_inf in (("all", None), ("channel", None), ("all", "all"), (None, "channel")):
                    specs.append({"kind": "update", "mode": mode, "img_shape": [3, 3], "buf_shape": [4, 4],
                                  "iy": _sl(1, 3, False), "ix": _sl(0, 2, False), "by": _sl(1, 3, (sm + om) % 2 == 1), "bx": _sl(2, 4, False),
                                  "content": "full", "old_content": "mixed", "src_mask": sm, "old_mask": om, "seed": seed(),
                                  "inf": inf, "old_inf": old_inf})
    ctx.bound("update with infinities (F32, F64, F16x3): 2x2 rectangle, all 16 source masks x all 16 old-cell masks x {every defined "
              "source pixel +-inf in all channels / in one channel (F16x3), old cells finite or +-inf; finite source over old cells "
              "with one infinite channel}")
    # 3. random large cases, with the indexers used in the repository
    nlarge = 1500 if ctx.thorough else 60
    for mode in M.MODES:
        for kind in ("fill", "update"):
            for _ in range(nlarge):
                fam = rng.choice(["quadrant", "study", "random", "full"])
                if fam == "quadrant":   # merge.py: whole 256x256 child into a quadrant of 512x512
                    q = rng.randrange(4)
                    s = {"img_shape": [256, 256], "buf_shape": [512, 512], "iy": ["slice", None, None, None], "ix": ["slice", None, None, None],
                         "by": ["slice", None, 256, None] if q < 2 else ["slice", 256, None, None],
                         "bx": ["slice", None, 256, None] if q % 2 == 0 else ["slice", 256, None, None]}
                elif fam == "full":     # toast.py: slice(None) everywhere
                    n = rng.choice([256, rng.randint(1, 40)])
                    s = {"img_shape": [n, n], "buf_shape": [n, n], "iy": ["slice", None, None, None], "ix": ["slice", None, None, None],
                         "by": ["slice", None, None, None], "bx": ["slice", None, None, None]}
                else:
                    if fam == "study":  # study.py: rectangle of a big image into a 256x256 tile, rows possibly reversed
                        H, W, BH, BW = rng.randint(1, 700), rng.randint(1, 700), 256, 256
                    else:
                        H, W, BH, BW = rng.randint(1, 60), rng.randint(1, 60), rng.randint(1, 60), rng.randint(1, 60)
                    h = rng.randint(1, min(H, BH))
                    w = rng.randint(1, min(W, BW))
                    iy, ix = rng.randint(0, H - h), rng.randint(0, W - w)
                    by = rng.choice([0, BH - h, rng.randint(0, BH - h)])
                    bx = rng.choice([0, BW - w, rng.randint(0, BW - w)])
                    s = {"img_shape": [H, W], "buf_shape": [BH, BW], "iy": _sl(iy, iy + h, False), "ix": _sl(ix, ix + w, False),
                         "by": _sl(by, by + h, rng.random() < 0.5), "bx": _sl(bx, bx + w, fam == "random" and rng.random() < 0.3)}
                s.update({"kind": kind, "mode": mode, "content": rng.choice(contents), "old_content": rng.choice(contents), "seed": seed()})
                if mode == "RGBA" and rng.random() < 0.4:
                    s["dirty"] = True
                specs.append(s)
    ctx.bound("fill/update: %d random cases per mode and operation over the indexer families of merge.py (quadrants of 512x512), "
              "study.py (reversed row slice into 256x256), toast.py (slice(None)) and random rectangles <= 60" % nlarge)
    # 4. point-list fills (samplers.py chunk sampler form)
    npts = 200 if ctx.thorough else 10
    for mode in M.MODES:
        for _ in range(npts):
            H, W = rng.randint(1, 50), rng.randint(1, 50)
            B = rng.choice([256, 16])
            cells = rng.sample(range(B * B), rng.randint(1, min(B * B, 400)))
            by = [c // B for c in cells]
            bx = [c % B for c in cells]
            specs.append({"kind": "fill", "mode": mode, "img_shape": [H, W], "buf_shape": [B, B],
                          "iy": ["index", [rng.randrange(H) for _ in cells]], "ix": ["index", [rng.randrange(W) for _ in cells]],
                          "by": ["index", by], "bx": ["index", bx], "content": rng.choice(contents), "seed": seed()})
        for _ in range(3):
            specs.append({"kind": "clear", "mode": mode, "buf_shape": [rng.choice([256, 512, 7]), rng.choice([256, 512, 5])], "seed": seed()})
    ctx.bound("fill with integer-array point lists (distinct buffer cells): %d per mode; clear(): 3 per mode" % npts)
    # 5. persistence
    nhist = 300 if ctx.thorough else 15
    for mode in M.MODES:
        for fmt in M.LOSSLESS[mode]:
            for prior in ("absent", "stale-defined", "stale-foreign"):
                # the two histories every (mode, format, prior) gets: an all-undefined write first, a defined write first
                fixed = [["allundef"], ["mixed", "allundef"], ["full"], ["single", "allundef", "sparse"]]
                for i in range(nhist):
                    steps = fixed[i] if i < len(fixed) else [rng.choice(contents) for _ in range(rng.randint(1, 3))]
                    s = {"kind": "persist", "mode": mode, "format": fmt, "prior": prior, "steps": steps,
                         "scheme": rng.choice(["L/Y/YX", "L/Y/YX", "LXY"]), "shape": rng.choice([[256, 256], [256, 256], [3, 5], [512, 512]]),
                         "pos": rng.choice([[0, 0, 0], [1, 1, 0], [2, 1, 3], [5, 17, 30]]),
                         "explicit_format": rng.random() < 0.2, "seed": seed()}
                    if mode == "RGBA" and rng.random() < 0.4:
                        s["dirty"] = True
                    specs.append(s)
    # tiles holding infinities are defined tiles: stored, read back exactly, replaced / removed like any other
    for mode in M.FLOAT_MODES:
        for fmt in M.LOSSLESS[mode]:
            for prior in ("absent", "stale-defined", "stale-foreign"):
                for steps, infs in ((["full"], ["all"]), (["single"], ["all"]), (["mixed"], ["all"]), (["single"], ["channel"]),
                                    (["full", "allundef", "single"], ["some", None, "all"]), (["mixed", "sparse"], ["channel", "all"])):
                    specs.append({"kind": "persist", "mode": mode, "format": fmt, "prior": prior, "steps": steps, "step_inf": infs,
                                  "scheme": rng.choice(["L/Y/YX", "L/Y/YX", "LXY"]), "shape": rng.choice([[256, 256], [256, 256], [3, 5]]),
                                  "pos": rng.choice([[0, 0, 0], [1, 1, 0], [2, 1, 3], [5, 17, 30]]),
                                  "explicit_format": rng.random() < 0.2, "seed": seed()})
    ctx.bound("persistence of float tiles with infinities: F32, F64 (npy, fits), F16x3 (npy) x prior file state x 6 histories: a whole tile "
              "of +-inf, a single infinite pixel (all channels / one channel) in an otherwise undefined tile, infinities and NaN only, "
              "then all-undefined, then defined again")
    ctx.bound("persistence: every mode x lossless format able to hold it (png: RGB RGBA; npy: all; fits: U8 I16 I32 F32 F64) x prior file state "
              "{absent, stale defined tile, stale foreign bytes} x %d histories of 1..3 writes (contents: %s); both path schemes" % (nhist, sorted(set(contents))))
    ctx.assume("numpy .npy, PIL PNG and astropy.io.fits codecs are lossless for the modes they are used with")
    ctx.note("signed integer data (I16/I32) are negative in about half of the cases: an undefined (0) source never changes a cell, an undefined cell takes the source, two defined values keep the larger")
    ctx.note("update_into_maskable_buffer with integer-array indexers is outside the explored domain (not a rectangle indexer; "
             "numpy fancy indexing returns a copy there, so such an update would be lost)")

    for sp in specs:
        if sp["mode"] in ("I16", "I32") and rng.random() < 0.5:
            sp["negative"] = True
    # infinities in floating-point data (drawn from a generator of their own: the cases above are the same with and without
    # this block): about half of the float fill/update/clear/persist cases get +-inf among their defined values
    import random as _random
    rng2 = _random.Random(ctx.seed * 7919 + 15)
    kinds = [None] + list(M.INF_KINDS)
    n_inf = 0
    for sp in specs:
        if sp["mode"] not in M.FLOAT_MODES or "inf" in sp or "step_inf" in sp:
            continue
        if sp["kind"] == "persist":
            if rng2.random() < 0.4:
                sp["step_inf"] = [rng2.choice(kinds) for _ in sp["steps"]]
                n_inf += 1
        elif sp["kind"] == "clear":
            if rng2.random() < 0.5:
                sp["old_inf"] = rng2.choice(M.INF_KINDS)      # content of the buffer before clear()
                n_inf += 1
        else:
            src_inf, old_inf = rng2.random() < 0.4, rng2.random() < 0.3
            if src_inf:
                sp["inf"] = rng2.choice(M.INF_KINDS)          # source image
            if old_inf:
                sp["old_inf"] = rng2.choice(M.INF_KINDS)      # buffer content before fill / update
            n_inf += 1 if (src_inf or old_inf) else 0
    ctx.bound("infinities: %d of the floating-point fill / update / clear / persistence cases above carry +inf / -inf among the defined "
              "values of the source, of the old buffer content or of the tile written (every defined pixel, a fifth of them, or one "
              "channel per pixel for F16x3); undefined stays NaN only" % n_inf)
    rng.shuffle(specs)
    per = 1500 if ctx.thorough else 500
    batches = M.chunks(specs, per)
    results = M.fanout(MOD, "batch", [{"specs": b, "workdir": ctx.workdir} for b in batches], timeout=420)
    for b, (status, res, secs) in zip(batches, results):
        if status != "ok" or res["n"] != len(b):
            raise RuntimeError("C15 batch %s after %.0fs: %s" % (status, secs, res))
        for s in b:
            ctx.case(_key(s))
        for f in res["fails"]:
            report(f["obligation"], f["witness"], f["message"])
    for k in ("fill", "update", "persist"):
        ctx.sample(next(s for s in specs if s["kind"] == k))
    report.summary()


def replay(obligation, witness):
    import warnings
    warnings.simplefilter("ignore")
    kind = witness.get("kind")
    if kind in ("fill", "update"):
        res = check_buffer_case(witness)
    elif kind == "clear":
        res = check_clear(witness)
    else:
        d = tempfile.mkdtemp(prefix="c15_replay_")
        try:
            res = [(o, m) for o, m, _ in check_persist(witness, d)]
        finally:
            shutil.rmtree(d, ignore_errors=True)
    if res:
        return False, "; ".join("%s: %s" % r for r in res)
    return True, "%s case of mode %s satisfies the statement" % (kind, witness.get("mode"))
