"""Helpers shared by the bounded drivers."""
import json
import os
import subprocess
import sys
import time

VERIF_DIR = os.path.dirname(os.path.dirname(os.path.abspath(__file__)))


def call_isolated(module, func, args, timeout, cwd=None, env=None):
    """Run ``module.func(**args)`` (JSON-able args, JSON-able result) in a fresh interpreter
    under a hard watchdog.  Returns (status, result, secs) with status in
    'ok' | 'timeout' | 'crash'.  A multiprocessing stage that hangs is an *observable outcome*
    ('timeout'), never a crash of the checker.  The whole process group is killed on expiry."""
    e = dict(os.environ)
    e["PYTHONPATH"] = VERIF_DIR + os.pathsep + e.get("PYTHONPATH", "")
    e["PYTHONDONTWRITEBYTECODE"] = "1"
    if env:
        e.update(env)
    t0 = time.time()
    p = subprocess.Popen([sys.executable, "-m", "rt.isolated", module, func], stdin=subprocess.PIPE,
                         stdout=subprocess.PIPE, stderr=subprocess.PIPE, cwd=cwd, env=e, start_new_session=True)
    try:
        outb, errb = p.communicate(json.dumps(args).encode(), timeout=timeout)
    except subprocess.TimeoutExpired:
        import signal
        try:
            os.killpg(p.pid, signal.SIGKILL)
        except ProcessLookupError:
            pass
        p.wait()
        return "timeout", None, time.time() - t0
    secs = time.time() - t0
    marker = b"\n@@RESULT@@"
    if p.returncode == 0 and marker in outb:
        try:
            return "ok", json.loads(outb.split(marker)[-1].decode()), secs
        except ValueError:
            pass
    return "crash", {"returncode": p.returncode, "stderr": errb.decode(errors="replace")[-2000:],
                     "stdout": outb.decode(errors="replace")[-500:]}, secs
