import numpy as np, os, tempfile, shutil
from astropy.io import fits
from astropy.wcs import WCS
import toasty
d = tempfile.mkdtemp()
w = WCS(naxis=2); w.wcs.ctype=['RA---TAN','DEC--TAN']; w.wcs.crval=[10,20]; w.wcs.crpix=[300,300]; w.wcs.cdelt=[-0.001,0.001]
p=os.path.join(d,'a.fits'); fits.PrimaryHDU(np.random.rand(600,600).astype(np.float32), header=w.to_header()).writeto(p)
out=os.path.join(d,'out')
o1,b1 = toasty.tile_fits(p, out_dir=out, parallel=1)
print('first', o1, b1.imgset.url, b1.imgset.tile_levels, b1.imgset.file_type, b1.imgset.center_x, b1.imgset.data_min, b1.place.ra_hr)
o2,b2 = toasty.tile_fits(p, out_dir=out, parallel=1)
print('second', o2, b2.imgset.url, b2.imgset.tile_levels, b2.imgset.file_type, b2.imgset.center_x, b2.imgset.data_min, b2.place.ra_hr)
print(open(os.path.join(out,'index_rel.wtml')).read()[:900])
