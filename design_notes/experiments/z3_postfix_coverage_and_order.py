exec(open(__import__('os').path.join(__import__('os').path.dirname(__file__),'z3_postfix_inductive_step.py')).read().split("def prove")[0])
import time
def prove(name, goal, extra=[]):
    s=Solver(); s.set('timeout',120000); s.add(hyp); s.add(extra); s.add(Not(goal))
    t=time.time(); r=s.check(); print(name, r, round(time.time()-t,2))
# IH coverage with skolem witness functions w_k(en,ex,ey)
w=[Function(f'w{k}',IntSort(),IntSort(),IntSort(),IntSort()) for k in range(4)]
en,ex,ey=Ints('en ex ey')
cov=[]
for c in range(4):
    cov.append(ForAll([en,ex,ey], Implies(And(desc(en,ex,ey,cn,cx[c],cy[c]), en<=D),
        And(0<=w[c](en,ex,ey), w[c](en,ex,ey)<L[c], Yn[c](w[c](en,ex,ey))==en, Yx[c](w[c](en,ex,ey))==ex, Yy[c](w[c](en,ex,ey))==ey)),
        patterns=[w[c](en,ex,ey)]))
# witness for whole: by cases
def inch(c): return desc(en,ex,ey,cn,cx[c],cy[c])
W = If(And(en==n,ex==x,ey==y), LL-1, If(inch(0), off[0]+w[0](en,ex,ey), If(inch(1), off[1]+w[1](en,ex,ey), If(inch(2), off[2]+w[2](en,ex,ey), off[3]+w[3](en,ex,ey)))))
goal = Implies(And(desc(en,ex,ey,n,x,y), en<=D), And(0<=W, W<LL, YN(W)==en, YX(W)==ex, YY(W)==ey))
prove('coverage', goal, cov)
# children-before-parent: IH: for i in Y_k with n<D, child j of Y_k(i) appears at index b_k(i,j) < i  -- use coverage witness: w_k(child) < i
cbp=[]
i=Int('i')
for c in range(4):
    for (dx_,dy_) in [(0,0),(1,0),(0,1),(1,1)]:
        cbp.append(ForAll([i], Implies(And(0<=i,i<L[c],Yn[c](i)<D), w[c](Yn[c](i)+1, 2*Yx[c](i)+dx_, 2*Yy[c](i)+dy_) < i), patterns=[Yn[c](i)]))
a=Int('a')
for (dx_,dy_) in [(0,0),(1,1)]:
    chn, chx, chy = YN(a)+1, 2*YX(a)+dx_, 2*YY(a)+dy_
    Wc = substitute(W, (en,chn),(ex,chx),(ey,chy))
    prove(f'children-before-parent d=({dx_},{dy_})', Implies(And(0<=a,a<LL,YN(a)<D), Wc < a), cov+cbp)
print('--- split per segment')
for c in range(4):
    seg = And(off[c] <= a, a < off[c]+L[c])
    dx_,dy_=1,0
    chn, chx, chy = YN(a)+1, 2*YX(a)+dx_, 2*YY(a)+dy_
    Wc = substitute(W, (en,chn),(ex,chx),(ey,chy))
    prove(f'cbp seg{c}', Implies(And(seg, YN(a)<D), Wc < a), cov+cbp)
# last element: a == LL-1 : children are c_k: W(c_k) = off_k + w_k(c_k) < LL-1
for c in range(4):
    Wc = substitute(W, (en,cn),(ex,cx[c]),(ey,cy[c]))
    prove(f'cbp last child{c}', Wc < LL-1, cov+cbp)
