import numpy as np, warnings
warnings.simplefilter('ignore')
from astropy.wcs import WCS
from toasty.samplers import WcsSampler
def mk(n1,n2,rot=0.0,scale=0.01,ra=50,dec=10):
    w=WCS(naxis=2); w.wcs.ctype=['RA---TAN','DEC--TAN']; w.wcs.crval=[ra,dec]; w.wcs.crpix=[(n1+1)/2,(n2+1)/2]
    c,s=np.cos(rot),np.sin(rot); w.wcs.cd=scale*np.array([[-c,s],[s,c]]); return w
for (n1,n2) in [(2,2),(2,40),(10,10),(31,31),(32,32),(64,64),(300,200)]:
    w=mk(n1,n2,rot=0.3)
    s=WcsSampler(np.zeros((n2,n1),np.float32), w)
    lon0,lon1,lat0,lat1=s._image_bounds()
    # dense truth over footprint edges incl. pixel edges 0.5..n+0.5
    t=np.linspace(0,1,4001)
    xs=np.r_[0.5+t*n1, np.full_like(t,n1+0.5), 0.5+t*n1, np.full_like(t,0.5)]
    ys=np.r_[np.full_like(t,0.5), 0.5+t*n2, np.full_like(t,n2+0.5), 0.5+t*n2]
    wl=w.wcs_pix2world(np.c_[xs,ys],1)
    D=np.pi/180
    tl0,tl1,tb0,tb1=wl[:,0].min()*D,wl[:,0].max()*D,wl[:,1].min()*D,wl[:,1].max()*D
    pix=0.01*D
    print((n1,n2),'shortfall in pixels: lon_min %.3f lon_max %.3f lat_min %.3f lat_max %.3f'%((lon0-tl0)/pix*np.cos(10*D),(tl1-lon1)/pix*np.cos(10*D),(lat0-tb0)/pix,(tb1-lat1)/pix))
