import numpy as np, os, tempfile, warnings
warnings.simplefilter('ignore')
from toasty.image import Image, ImageMode
from toasty.pyramid import PyramidIO, Pos
rng=np.random.default_rng(7)
def mk(mode,h,w):
    if mode==ImageMode.RGB: return rng.integers(0,256,(h,w,3),dtype=np.uint8)
    if mode==ImageMode.RGBA:
        a=rng.integers(0,256,(h,w,4),dtype=np.uint8); a[...,3]=np.where(rng.random((h,w))<0.4,0,rng.integers(1,256,(h,w))); return a
    if mode==ImageMode.F32: a=rng.random((h,w)).astype(np.float32); a[rng.random((h,w))<0.4]=np.nan; return a
    if mode==ImageMode.F64: a=rng.random((h,w)); a[rng.random((h,w))<0.4]=np.nan; return a
    if mode==ImageMode.F16x3: a=rng.random((h,w,3)).astype(np.float16); a[rng.random((h,w))<0.4]=np.nan; return a
    if mode==ImageMode.U8: a=rng.integers(0,256,(h,w),dtype=np.uint8); a[rng.random((h,w))<0.4]=0; return a
    if mode==ImageMode.I16: a=rng.integers(0,3000,(h,w)).astype(np.int16); a[rng.random((h,w))<0.4]=0; return a
    if mode==ImageMode.I32: a=rng.integers(0,300000,(h,w)).astype(np.int32); a[rng.random((h,w))<0.4]=0; return a
def undef(mode,b):
    if mode in (ImageMode.RGB,ImageMode.RGBA): return b[...,3]==0
    if mode in (ImageMode.F32,ImageMode.F64): return np.isnan(b)
    if mode==ImageMode.F16x3: return np.any(np.isnan(b),axis=2)
    return b==0
bad=0
for mode in ImageMode:
    for t in range(30):
        H,W=int(rng.integers(1,20)),int(rng.integers(1,20))
        src=mk(mode,H,W); img=Image.from_array(src.copy())
        h=int(rng.integers(1,H+1)); w=int(rng.integers(1,W+1)); iy=int(rng.integers(0,H-h+1)); ix=int(rng.integers(0,W-w+1))
        BH,BW=24,24; by=int(rng.integers(0,BH-h+1)); bx=int(rng.integers(0,BW-w+1))
        flip=rng.random()<0.5
        if flip:
            y1=by+h-1; y0=by-1; bys=slice(y1, None if y0==-1 else y0, -1)
        else: bys=slice(by,by+h)
        buf=mode.make_maskable_buffer(BH,BW)
        img.fill_into_maskable_buffer(buf, slice(iy,iy+h), slice(ix,ix+w), bys, slice(bx,bx+w))
        b=buf.asarray()
        inside=np.zeros((BH,BW),bool); inside[by:by+h,bx:bx+w]=True
        u=undef(mode,b)
        if mode in (ImageMode.RGB,):
            ok = np.all(~u[inside]) and np.all(u[~inside])
        else:
            ok = np.all(u[~inside])
        # values
        region=b[bys, slice(bx,bx+w)]
        exp=src[iy:iy+h, ix:ix+w]
        if mode==ImageMode.RGB: ok = ok and np.array_equal(region[...,:3],exp) and np.all(region[...,3]==255)
        else: ok = ok and np.array_equal(region,exp,equal_nan=(mode not in (ImageMode.RGBA,ImageMode.U8,ImageMode.I16,ImageMode.I32)))
        # update
        old=mk(mode,BH,BW) if mode!=ImageMode.RGB else mk(ImageMode.RGBA,BH,BW)
        buf2=mode.make_maskable_buffer(BH,BW); buf2._as_writeable_array()[...]=old
        img.update_into_maskable_buffer(buf2, slice(iy,iy+h), slice(ix,ix+w), bys, slice(bx,bx+w))
        b2=buf2.asarray()
        eq=lambda a,c: np.array_equal(a,c,equal_nan=a.dtype.kind=='f')
        ok = ok and eq(b2[~inside], old[~inside])
        reg2=b2[bys, slice(bx,bx+w)]; oldreg=old[bys, slice(bx,bx+w)]
        if mode==ImageMode.RGB: ok = ok and np.array_equal(reg2[...,:3],exp) and np.all(reg2[...,3]==255)
        elif mode in (ImageMode.U8,ImageMode.I16,ImageMode.I32): ok = ok and np.array_equal(reg2, np.maximum(oldreg,exp))
        else:
            su=undef(mode,exp)
            ok = ok and eq(reg2[su], oldreg[su]) and eq(reg2[~su], exp[~su])
        if not ok: bad+=1; print('BAD',mode,t)
print('fill/update bad',bad)
# persistence
d=tempfile.mkdtemp()
fm={ImageMode.RGB:['png','npy'],ImageMode.RGBA:['png','npy'],ImageMode.F32:['npy','fits'],ImageMode.F64:['npy','fits'],ImageMode.F16x3:['npy'],ImageMode.U8:['npy','fits'],ImageMode.I16:['npy','fits'],ImageMode.I32:['npy','fits']}
pb=0
for mode,fmts in fm.items():
    for f in fmts:
        pio=PyramidIO(os.path.join(d,mode.name+f), default_format=f)
        a=mk(mode,256,256); pio.write_image(Pos(1,0,1), Image.from_array(a.copy()))
        r=pio.read_image(Pos(1,0,1))
        if r is None or r.mode!=mode or not np.array_equal(r.asarray(),a,equal_nan=a.dtype.kind=='f'): pb+=1; print('persist BAD',mode,f, None if r is None else r.mode)
        # fully masked removes stale file
        if mode in (ImageMode.RGBA,ImageMode.F32,ImageMode.F64,ImageMode.F16x3):
            m=mode.make_maskable_buffer(256,256); m.clear(); pio.write_image(Pos(1,0,1), m)
            if pio.read_image(Pos(1,0,1)) is not None: pb+=1; print('stale not removed',mode,f)
            mm=pio.read_image(Pos(1,0,1),default='masked',masked_mode=mode)
            if not mm.is_completely_masked(): pb+=1; print('masked default bad')
print('persist bad',pb)
