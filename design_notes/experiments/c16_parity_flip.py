import numpy as np, warnings
warnings.simplefilter('ignore')
from astropy.wcs import WCS
from toasty.image import Image, ImageDescription
rng=np.random.default_rng(0)
worst=0
for t in range(200):
    H=int(rng.integers(1,40)); W=int(rng.integers(1,40))
    w=WCS(naxis=2); w.wcs.ctype=['RA---TAN','DEC--TAN']; w.wcs.crval=[rng.uniform(0,360), rng.uniform(-80,80)]
    w.wcs.crpix=[rng.uniform(-20,60), rng.uniform(-20,60)]
    cd=rng.normal(size=(2,2))*1e-3
    if abs(np.linalg.det(cd))<1e-8: continue
    w.wcs.cd=cd
    arr=rng.random((H,W)).astype(np.float32)
    img=Image.from_array(arr.copy(), wcs=w)
    p0=img.get_parity_sign()
    xs,ys=np.meshgrid(np.arange(W),np.arange(H))
    before=w.wcs_pix2world(np.c_[xs.ravel(),ys.ravel()],0)
    img.flip_parity()
    after=img.wcs.wcs_pix2world(np.c_[xs.ravel(),(H-1-ys).ravel()],0)
    d=np.abs(before-after); d[:,0]=np.minimum(d[:,0],360-d[:,0])
    worst=max(worst,d.max())
    assert img.get_parity_sign()==-p0
    assert np.array_equal(img.asarray(), arr[::-1])
    img.ensure_negative_parity(); assert img.get_parity_sign()==-1
    a1=img.asarray().copy(); img.ensure_negative_parity(); assert np.array_equal(a1,img.asarray())
    dsc=ImageDescription(shape=(H,W),wcs=w); dsc.ensure_negative_parity(); assert dsc.get_parity_sign()==-1
print('worst', worst)
