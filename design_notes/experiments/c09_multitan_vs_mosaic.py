import numpy as np, os, tempfile, warnings, glob
warnings.simplefilter('ignore')
from astropy.io import fits
from astropy.wcs import WCS
from toasty import collection, multi_tan, builder, pyramid
from toasty.image import Image
from toasty.study import StudyTiling
d = tempfile.mkdtemp()
H,W=420,520
rng=np.random.default_rng(0)
mos=rng.random((H,W)).astype(np.float32)   # top-down mosaic (row 0 = top), negative parity WCS
def mkwcs(crpix1,crpix2, cd22):
    w=WCS(naxis=2); w.wcs.ctype=['RA---TAN','DEC--TAN']; w.wcs.crval=[10,20]; w.wcs.crpix=[crpix1,crpix2]; w.wcs.cdelt=[-0.001, cd22]; return w
# global top-down WCS: cdelt2 negative => det = (-.001)(-.001) >0 => parity -1
gw = mkwcs(W/2+0.5, H/2+0.5, -0.001)
pieces=[(0,0,200,300),(150,40,260,370)]  # (y0,x0,h,w) overlapping
import sys
BU=int(sys.argv[1]); PAR=int(sys.argv[2])
paths=[]
for k,(y0,x0,h,w) in enumerate(pieces):
    sub=mos[y0:y0+h, x0:x0+w]
    wc = mkwcs(gw.wcs.crpix[0]-x0, gw.wcs.crpix[1]-y0, -0.001)
    if BU:
        # store bottom-up: flip rows and wcs
        sub=sub[::-1]; 
        wc = mkwcs(gw.wcs.crpix[0]-x0, h+1-(gw.wcs.crpix[1]-y0), +0.001)
    p=os.path.join(d,f'p{k}.fits'); fits.PrimaryHDU(sub, header=wc.to_header()).writeto(p); paths.append(p)
def tile_multi(fmt_dir, parallel):
    pio=pyramid.PyramidIO(fmt_dir, default_format='fits'); b=builder.Builder(pio)
    coll=collection.load(paths)
    proc=multi_tan.MultiTanProcessor(coll); proc.compute_global_pixelization(b); proc.tile(pio, parallel=parallel)
    return pio,b,proc
pio,b,proc=tile_multi(os.path.join(d,'m1'),PAR)
print('levels', b.imgset.tile_levels, 'tiling', proc._tiling._width, proc._tiling._height)
# reference: mosaic restricted to union bbox
ys=[y for (y,x,h,w) in pieces]+[y+h for (y,x,h,w) in pieces]; xs=[x for (y,x,h,w) in pieces]+[x+w for (y,x,h,w) in pieces]
y0,y1,x0,x1=min(ys),max(ys),min(xs),max(xs)
ref=np.full((y1-y0,x1-x0),np.nan,np.float32)
for (yy,xx,h,w) in pieces: ref[yy-y0:yy-y0+h, xx-x0:xx-x0+w]=mos[yy:yy+h,xx:xx+w]
pio2=pyramid.PyramidIO(os.path.join(d,'ref'), default_format='fits')
img=Image.from_array(ref, default_format='fits')
t=StudyTiling(ref.shape[1],ref.shape[0]); t.tile_image(img,pio2)
bad=0;n=0
for pos,*_ in t.generate_populated_positions():
    a=pio.read_image(pos); r=pio2.read_image(pos)
    n+=1
    if (a is None)!=(r is None): bad+=1; print('exist mismatch',pos); continue
    if a is not None and not np.array_equal(a.asarray(), r.asarray(), equal_nan=True): bad+=1; print('pix mismatch',pos, np.nanmax(np.abs(a.asarray()-r.asarray())))
print('tiles',n,'bad',bad, 'locks', glob.glob(os.path.join(d,'m1','**','*.lock'),recursive=True))
