import multiprocessing as mp, time, tempfile, os, sys, io, contextlib
from toasty.pyramid import Pyramid, Pos
SLOW = len(sys.argv) > 1 and sys.argv[1] == 'slow'
real_Event = mp.Event
class SlowEvent:
    def __init__(self): self._e = real_Event()
    def set(self): self._e.set()
    def is_set(self):
        time.sleep(0.6); return self._e.is_set()
if SLOW:
    mp.Event = lambda: SlowEvent()
d = tempfile.mkdtemp()
phase = {'n': 0}
def filt(t):
    if t.pos == Pos(1,1,1) and phase['n'] == 1:
        time.sleep(1.25)
    return True
def cb(pos, tile):
    open(os.path.join(d, f'{pos.n}_{pos.x}_{pos.y}.{os.getpid()}'), 'w').close()
p = Pyramid.new_toast_filtered(1, filt)
# count pass happens inside visit_leaves; make only the dispatch pass slow:
orig = p.count_leaf_tiles
def counted():
    r = orig(); phase['n'] = 1; return r
p.count_leaf_tiles = counted
t0 = time.time()
p.visit_leaves(cb, parallel=2)
print('returned after', round(time.time()-t0, 2), 's; processed:', sorted(f.split('.')[0] for f in os.listdir(d)))
