from z3 import *
import time
# desc(d,s) step lemma with P = pow2(k-1)
sx, dx, P, k = Ints('sx dx P k')
s = Solver(); s.set('timeout', 20000)
lhs = And(sx*(2*P) <= dx, dx < (sx+1)*(2*P))
rhs = And(sx*P <= dx/2, dx/2 < (sx+1)*P)
s.add(P >= 1, sx >= 0, dx >= 0, Not(lhs == rhs))
t=time.time(); print('step lemma', s.check(), time.time()-t)
# child split lemma
s = Solver(); s.set('timeout', 20000)
ex = Int('ex')
hyp = And(sx*(2*P) <= ex, ex < (sx+1)*(2*P), P>=1, sx>=0)
c0 = And((2*sx)*P <= ex, ex < (2*sx+1)*P)
c1 = And((2*sx+1)*P <= ex, ex < (2*sx+2)*P)
s.add(hyp, Not(Xor(c0,c1)))
t=time.time(); print('child split', s.check(), time.time()-t)
# study tiling: next_highest_power_of_2 invariants etc: p = 256*2^j, (p==256 or p/2 < n)
# generate_populated_positions coverage: for every image pixel (px,py) there is exactly one (itx) with overlap containing it
W, gx0, px, itx = Ints('W gx0 px itx')
s = Solver(); s.set('timeout', 20000)
gx1 = gx0 + W - 1
ts, te = gx0/256, gx1/256
t0 = itx*256; t1 = t0+255
o0 = If(t0 > gx0, t0, gx0); o1 = If(t1 < gx1, t1, gx1)
g = px + gx0
inr = And(ts <= itx, itx <= te)
cover = And(inr, o0 <= g, g <= o1)
# claim: px in [0,W) => cover holds iff itx == g/256
s.add(W>=1, gx0>=0, px>=0, px<W, Not(cover == (itx == g/256)))
t=time.time(); print('cover', s.check(), time.time()-t)
