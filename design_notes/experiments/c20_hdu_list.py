import numpy as np, os, tempfile
from astropy.io import fits
from astropy.wcs import WCS
from toasty import collection
d = tempfile.mkdtemp()
paths=[]
for k in range(2):
    w = WCS(naxis=2); w.wcs.ctype=['RA---TAN','DEC--TAN']; w.wcs.crval=[10,20]; w.wcs.crpix=[5,5]; w.wcs.cdelt=[-0.01,0.01]
    hdus=[fits.PrimaryHDU()]
    for e in range(3):
        hdus.append(fits.ImageHDU(np.full((4+e,6+e), 10*k+e, dtype=np.float32), header=w.to_header()))
    p=os.path.join(d,f'f{k}.fits'); fits.HDUList(hdus).writeto(p); paths.append(p)
for sel in (None, 2, [1,3], [3,1]):
    try:
        c = collection.load(paths, hdu_index=sel)
        print(sel, [ (im.shape, float(im.asarray()[0,0])) for im in c.images()], c.export_simple())
    except Exception as e:
        print(sel, 'EXC', type(e).__name__, e)
