import numpy as np, os, tempfile, time, multiprocessing as mp, warnings
warnings.simplefilter('ignore')
from toasty.pyramid import PyramidIO, Pos
from toasty.image import Image, ImageMode
d=tempfile.mkdtemp()
pio=PyramidIO(d, default_format='npy')
# widen the window: slow read
orig=PyramidIO.read_image
def slow_read(self,*a,**k):
    r=orig(self,*a,**k); time.sleep(0.005); return r
PyramidIO.read_image=slow_read
N=4; R=25
def work(k):
    for r in range(R):
        src=np.full((256,256),np.nan,np.float32); src[k*R+r, :]=k*1000+r
        img=Image.from_array(src)
        with pio.update_image(Pos(0,0,0), masked_mode=ImageMode.F32, default='masked') as basis:
            img.update_into_maskable_buffer(basis, slice(None),slice(None),slice(None),slice(None))
ps=[mp.Process(target=work,args=(k,)) for k in range(N)]
[p.start() for p in ps]; [p.join() for p in ps]
a=pio.read_image(Pos(0,0,0)).asarray()
missing=[(k,r) for k in range(N) for r in range(R) if not np.all(a[k*R+r]==k*1000+r)]
print('exit codes',[p.exitcode for p in ps],'missing contributions',len(missing), 'locks left', [f for f in os.listdir(os.path.join(d,'0','0')) if f.endswith('.lock')])
