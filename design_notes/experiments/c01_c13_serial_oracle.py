import itertools, random
from toasty.pyramid import *
from toasty.pyramid import Pyramid
random.seed(3)
def run(p):
    leaves=[]; ops=[]
    p.visit_leaves(lambda pos,t: leaves.append(pos), parallel=1)
    return leaves
def mk(kind, depth, acc, apex):
    if kind=='g': p=Pyramid.new_generic(depth)
    elif kind=='t': p=Pyramid.new_toast(depth)
    else: p=Pyramid.new_toast_filtered(depth, lambda t: t.pos in acc)
    if apex is not None: p=p.subpyramid(apex)
    return p
bad=0; n=0
for trial in range(400):
    depth=random.randint(0,3)
    kind=random.choice('gtf')
    allpos=[p for p in generate_pos(depth) if p.n>=1]
    acc=set(p for p in allpos if random.random()<0.7)
    apex=None
    if random.random()<0.5:
        an=random.randint(0,depth); apex=Pos(an, random.randrange(2**an), random.randrange(2**an))
    import io, contextlib
    try:
        with contextlib.redirect_stdout(io.StringIO()):
            leaves=[]; mk(kind,depth,acc,apex).visit_leaves(lambda pos,t: leaves.append(pos), parallel=1)
            ops=[]; mk(kind,depth,acc,apex).walk(lambda pos: ops.append(pos), parallel=1)
            cl=mk(kind,depth,acc,apex).count_leaf_tiles(); cv=mk(kind,depth,acc,apex).count_live_tiles(); co=mk(kind,depth,acc,apex).count_operations()
    except Exception as e:
        print('EXC', kind, depth, apex, type(e).__name__, e); bad+=1; continue
    # oracle
    def accepted(p):
        if kind!='f' or p.n==0: return True
        q=p
        while q.n>=1:
            if q not in acc: return False
            q=pos_parent(q)[0]
        return True
    ap=apex or Pos(0,0,0)
    exp_leaves=[p for p in generate_pos(depth) if p.n==depth and accepted(p) and is_subtile(p,ap)]
    live=set()
    for l in exp_leaves:
        q=l
        while True:
            live.add(q)
            if q==ap: break
            q=pos_parent(q)[0]
    exp_ops=[p for p in generate_pos(depth) if p in live and p.n<depth]
    n+=1
    ok = (sorted(leaves)==sorted(exp_leaves) and ops==exp_ops and cl==len(exp_leaves) and cv==len(live) and co==len(exp_ops))
    if not ok:
        bad+=1
        print('MISMATCH', kind, depth, apex, len(acc), 'leaves',len(leaves),len(exp_leaves),'ops',len(ops),len(exp_ops),'counts',cl,cv,co,len(live))
print('trials',n,'bad',bad)
