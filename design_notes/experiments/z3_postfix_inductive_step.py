from z3 import *
import time
# Array-sequence encoding of _postfix_pos contract, inductive step, by hand.
pow2 = Function('pow2', IntSort(), IntSort())
T = Function('T', IntSort(), IntSort())   # depth2tiles
def desc(en,ex,ey, pn,px,py):
    P = pow2(en-pn)
    return And(en>=pn, px*P <= ex, ex < (px+1)*P, py*P <= ey, ey < (py+1)*P)
n,x,y,D = Ints('n x y D')
# child sequences: functions idx->(n,x,y), lengths
Yn=[Function(f'Yn{k}',IntSort(),IntSort()) for k in range(4)]
Yx=[Function(f'Yx{k}',IntSort(),IntSort()) for k in range(4)]
Yy=[Function(f'Yy{k}',IntSort(),IntSort()) for k in range(4)]
L=[Int(f'L{k}') for k in range(4)]
cn=n+1; cx=[2*x,2*x+1,2*x,2*x+1]; cy=[2*y,2*y,2*y+1,2*y+1]
i=Int('i'); j=Int('j')
hyp=[n>=0,x>=0,y>=0,n<=D, n<D]  # case n<D (children nonempty); n==D separately
# pow2 axioms instantiated via quantifier
k=Int('k')
hyp.append(ForAll([k], Implies(k>=0, pow2(k+1)==2*pow2(k)), patterns=[pow2(k+1)]))
hyp.append(ForAll([k], Implies(k>=1, pow2(k)==2*pow2(k-1)), patterns=[pow2(k)]))
hyp.append(pow2(0)==1)
hyp.append(ForAll([k], Implies(k>=0, pow2(k)>=1), patterns=[pow2(k)]))
hyp.append(ForAll([k], Implies(k>=0, T(k)==4*T(k-1)+1), patterns=[T(k)]))
hyp.append(T(-1)==0)
for c in range(4):
    # IH: pointwise in-scope, length, distinct, last is child
    hyp.append(L[c]==T(D-cn))
    hyp.append(ForAll([i], Implies(And(0<=i,i<L[c]), And(desc(Yn[c](i),Yx[c](i),Yy[c](i),cn,cx[c],cy[c]), Yn[c](i)<=D)), patterns=[Yn[c](i)]))
    hyp.append(ForAll([i,j], Implies(And(0<=i,i<j,j<L[c]), Not(And(Yn[c](i)==Yn[c](j),Yx[c](i)==Yx[c](j),Yy[c](i)==Yy[c](j)))), patterns=[MultiPattern(Yn[c](i),Yn[c](j))]))
    hyp.append(And(L[c]>=1, Yn[c](L[c]-1)==cn, Yx[c](L[c]-1)==cx[c], Yy[c](L[c]-1)==cy[c]))
off=[0, L[0], L[0]+L[1], L[0]+L[1]+L[2]]
LL=sum(L)+1
def Y(f, own):
    def g(i):
        return If(i<off[1], f[0](i), If(i<off[2], f[1](i-off[1]), If(i<off[3], f[2](i-off[2]), If(i<LL-1, f[3](i-off[3]), own))))
    return g
YN=Y(Yn,n); YX=Y(Yx,x); YY=Y(Yy,y)
def prove(name, goal):
    s=Solver(); s.set('timeout',60000); s.add(hyp); s.add(Not(goal))
    t=time.time(); r=s.check(); print(name, r, round(time.time()-t,2))
a,b=Ints('a b')
prove('length', LL==T(D-n))
prove('pointwise', Implies(And(0<=a,a<LL), And(desc(YN(a),YX(a),YY(a),n,x,y), YN(a)<=D)))
prove('distinct', Implies(And(0<=a,a<b,b<LL), Not(And(YN(a)==YN(b),YX(a)==YX(b),YY(a)==YY(b)))))
prove('last', And(YN(LL-1)==n, YX(LL-1)==x, YY(LL-1)==y))
