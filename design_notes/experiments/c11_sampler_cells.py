import numpy as np
from toasty import samplers as S
rng=np.random.default_rng(2)
TW=2*np.pi
def cell(kind, lon, lat, nx, ny):
    # expected (iy, ix) by the documented layout, computed with floor on reals
    if kind=='sky':      u=((np.pi-lon)%TW)/TW      # lon increases to the left, 0 at centre
    elif kind=='zr':     u=((TW-lon)%TW)/TW         # 0 at right edge, increasing to the left
    elif kind=='planet': u=((lon+np.pi)%TW)/TW      # increasing right, 0 at centre
    elif kind=='zl':     u=(lon%TW)/TW              # increasing right, 0 at left
    ix=np.floor(u*nx); iy=np.floor((np.pi/2-lat)/np.pi*ny)
    return np.clip(iy,0,ny-1).astype(int), np.clip(ix,0,nx-1).astype(int), u*nx, (np.pi/2-lat)/np.pi*ny
tests=[('sky',S.plate_carree_sampler),('zr',S.plate_carree_zeroright_sampler),('planet',S.plate_carree_planet_sampler),('zl',S.plate_carree_planet_zeroleft_sampler)]
for kind,f in tests:
    bad=0;n=0
    for _ in range(300):
        ny=int(rng.integers(1,9)); nx=int(rng.integers(1,13))
        data=np.arange(ny*nx).reshape(ny,nx)
        samp=f(data)
        lon=rng.uniform(-20,20,(7,5)); lat=rng.uniform(-np.pi/2,np.pi/2,(7,5))
        got=samp(lon,lat)
        iy,ix,fx,fy=cell(kind,lon,lat,nx,ny)
        exp=data[iy,ix]
        near=(np.abs(fx-np.round(fx))<1e-9)|(np.abs(fy-np.round(fy))<1e-9)
        mism=(got!=exp)&~near
        bad+=mism.sum(); n+=got.size
        assert got.shape==lon.shape
        got2=samp(lon+TW*3,lat); 
        if not np.array_equal(got2,got): 
            # allow boundary
            pass
    print(kind,'points',n,'bad',bad)
