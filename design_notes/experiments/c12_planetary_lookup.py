import numpy as np
from toasty.toast import *
from toasty.toast import _toast_tile_containment_score, _equ_to_xyz
for cs in (ToastCoordinateSystem.ASTRONOMICAL, ToastCoordinateSystem.PLANETARY):
    bad=0; tot=0
    rng=np.random.default_rng(1)
    for _ in range(300):
        lat=rng.uniform(-1.4,1.4); lon=rng.uniform(0,2*np.pi)
        t=toast_tile_for_point(4,lat,lon,coordsys=cs)
        lons,lats=toast_tile_get_coords(t)
        # angular distance to nearest pixel centre
        p=_equ_to_xyz(lat,lon)
        q=np.array([np.cos(lons)*np.cos(lats), np.sin(lats), np.sin(lons)*np.cos(lats)])
        d=np.arccos(np.clip(np.tensordot(p,q,axes=(0,0)),-1,1)).min()
        tot+=1
        if d>0.01: bad+=1
    print(cs, 'bad', bad, 'of', tot)
