import numpy as np, os, tempfile, warnings, sys, io, contextlib
warnings.simplefilter('ignore')
from astropy.io import fits
from toasty.pyramid import PyramidIO, Pos, generate_pos, pos_children
from toasty.image import Image
from toasty.merge import cascade_images, averaging_merger
fmt=sys.argv[1]; par=int(sys.argv[2])
rng=np.random.default_rng(5)
d=tempfile.mkdtemp(); pio=PyramidIO(d, default_format=fmt)
depth=2
bu = (fmt=='fits')
leaves={}
for p in generate_pos(depth):
    if p.n==depth and rng.random()<0.6:
        if fmt=='png':
            a=rng.integers(0,256,(256,256,4),dtype=np.uint8); a[...,3]=np.where(rng.random((256,256))<0.3,0,255)
        else:
            a=rng.random((256,256)).astype(np.float32); a[rng.random((256,256))<0.3]=np.nan
        if rng.random()<0.15 and fmt!='png': a[:]=np.nan
        leaves[p]=a  # display orientation
        stored=a[::-1] if bu else a
        pio.write_image(p, Image.from_array(stored.copy(), default_format=fmt if fmt!='png' else None))
with contextlib.redirect_stdout(io.StringIO()):
    cascade_images(pio, depth, averaging_merger, parallel=par)
def disp(p):
    img=pio.read_image(p)
    if img is None: return None
    a=img.asarray(); return a[::-1] if bu else a
def oracle(p, cache={}):
    if p in cache: return cache[p]
    if p.n==depth:
        a=leaves.get(p)
        if a is not None and fmt!='png' and np.all(np.isnan(a)): a=None
        cache[p]=a; return a
    kids=[oracle(c) for c in pos_children(p)]
    if all(k is None for k in kids): cache[p]=None; return None
    if fmt=='png':
        M=np.zeros((512,512,4),np.uint8)
    else:
        M=np.full((512,512),np.nan,np.float32)
    for k,c in enumerate(kids):
        if c is None: continue
        i,j=k%2,k//2
        sub=M[256*j:256*j+256,256*i:256*i+256]
        if fmt=='png':
            m=c[...,3]!=0; sub[m]=c[m]
        else:
            m=~np.isnan(c); sub[m]=c[m]
    if fmt=='png':
        out=M.reshape(256,2,256,2,4).astype(np.float64).mean(axis=(1,3)).astype(np.uint8)
        res=None if np.all(out[...,3]==0) else out
    else:
        with warnings.catch_warnings():
            warnings.simplefilter('ignore'); out=np.nanmean(M.reshape(256,2,256,2),axis=(1,3)).astype(np.float32)
        res=None if np.all(np.isnan(out)) else out
    cache[p]=res; return res
bad=0
for p in generate_pos(depth):
    if p.n<depth:
        got=disp(p); exp=oracle(p)
        if (got is None)!=(exp is None): bad+=1; print('exist',p); continue
        if got is not None and not np.array_equal(got,exp,equal_nan=True): bad+=1; print('pix',p, np.nanmax(np.abs(got.astype(float)-exp.astype(float))))
        if got is not None and fmt=='fits':
            h=fits.getheader(pio.tile_path(p,makedirs=False))
            vals=[leaves[l] for l in leaves if l.n==depth and (l.x>>(depth-p.n))==p.x and (l.y>>(depth-p.n))==p.y]
            vals=[v[np.isfinite(v)] for v in vals]; vals=np.concatenate([v for v in vals if v.size])
            if not (np.isclose(h['DATAMIN'],vals.min(),rtol=1e-6) and np.isclose(h['DATAMAX'],vals.max(),rtol=1e-6)): bad+=1; print('range',p,h['DATAMIN'],vals.min(),h['DATAMAX'],vals.max())
print(fmt,par,'leaves',len(leaves),'bad',bad)
